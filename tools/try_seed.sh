#!/bin/bash
# tools/try_seed.sh <patch.diff> <ID> [<ID> ...]   apply a seeded defect to /repo, run quick checks, undo.
patch=$1; shift
cd /repo || exit 3
if [ -n "$(git status --porcelain --untracked-files=no)" ]; then echo "/repo not clean"; exit 3; fi
git apply "$patch" 2>/dev/null || git apply --3way "$patch" || { echo "patch does not apply"; git checkout -- .; exit 3; }
trap 'git -C /repo checkout -- . ; git -C /repo reset -q' EXIT
for id in "$@"; do
  out=$(cd /verif && VERIF_TIER=${TIER:-quick} ./check $id --tier ${TIER:-quick} 2>&1)
  rc=$?
  echo "== $id rc=$rc  $(echo "$out" | grep -c '^VIOLATION') violation lines"
  echo "$out" | grep -e 'new-violation kind' -e '^INCONCLUSIVE' -e '^HELD' | head -8
  echo "$out" | grep -m2 'witness:' | cut -c1-400
done
