#!/usr/bin/env python3
"""tools/benign_vs_checks.py <name> <check id> [<check id> ...] [--tier quick|thorough] [--no-suite]

False-alarm audit.  <name> is a property-PRESERVING change written by a sub-agent (patch + meta in
/tmp/wtben/<name>.* or already in /verif/benign/<name>/).  The patch is applied to a scratch worktree of
/repo's HEAD under /var/tmp (never to /repo), the repository's suite is run there (must stay 268 / same 3),
the given checks are run against that worktree through VERIF_REPO, and the outcome is recorded in
/verif/benign/<name>/meta.json.  Any exit code other than 0 needs a human decision: either the change does
break the property after all (then it is not benign and is dropped or becomes a seed), or the check demands
more than the property states and is corrected."""
import json
import os
import re
import shutil
import subprocess
import sys
import time

args = [a for a in sys.argv[1:] if not a.startswith("--")]
tier = "quick"
if "--tier" in sys.argv:
    tier = sys.argv[sys.argv.index("--tier") + 1]
    args = [a for a in args if a != tier]
name, ids = args[0], args[1:]
bdir = "/verif/benign/%s" % name
os.makedirs(bdir, exist_ok=True)
for ext in ("patch.diff", "meta.json"):
    src = "/tmp/wtben/%s.%s" % (name, ext)
    dst = os.path.join(bdir, ext)
    if os.path.exists(src) and not os.path.exists(dst):
        shutil.copy(src, dst)
wt = "/var/tmp/benign_wt_%s" % name


def sh(cmd, **kw):
    return subprocess.run(cmd, shell=True, capture_output=True, text=True, **kw)


sh("git -C /repo worktree remove --force %s" % wt)
if sh("git -C /repo worktree add --detach %s HEAD" % wt).returncode != 0:
    sys.exit("worktree failed")
meta_p = os.path.join(bdir, "meta.json")
meta = json.load(open(meta_p))
try:
    if sh("git -C %s apply %s/patch.diff" % (wt, bdir)).returncode != 0:
        sys.exit("patch does not apply")
    if "--no-suite" not in sys.argv and "suite_with_change" not in meta:
        p = sh("cd %s && PYTHONPATH=%s env -u SYNRBL_VERIF /venv/bin/python -m pytest -q -p no:cacheprovider "
               "--timeout=900 --continue-on-collection-errors 2>&1 | tail -1" % (wt, wt))
        meta["suite_with_change"] = p.stdout.strip()
        print(name, "suite:", meta["suite_with_change"])
    results = {}
    for cid in ids:
        t0 = time.time()
        p = sh("cd /verif && VERIF_REPO=%s ./check %s --tier %s" % (wt, cid, tier))
        out = p.stdout
        kinds = dict(re.findall(r"new-violation kind (\S+)\s+(\d+)", out))
        verdict = "alarm (VIOLATION)" if p.returncode == 1 else "silent" if p.returncode == 0 else \
            "inconclusive/error rc=%d" % p.returncode
        results[cid] = {"tier": tier, "exit": p.returncode, "verdict": verdict,
                        "violation_kinds": {k: int(v) for k, v in kinds.items()},
                        "wall_s": round(time.time() - t0)}
        w = re.search(r"witness: (.*)", out)
        if w:
            results[cid]["first_witness"] = w.group(1)[:600]
        inc = re.search(r"^INCONCLUSIVE.*", out, re.M)
        if inc:
            results[cid]["inconclusive"] = inc.group(0)[:300]
        print(name, cid, verdict, kinds)
finally:
    sh("git -C /repo worktree remove --force %s" % wt)
    sh("cd /verif && git checkout -- evidence")
meta.setdefault("checks", {}).update(results)
meta["alarms"] = sorted(k for k, v in meta["checks"].items() if v["exit"] != 0)
json.dump(meta, open(meta_p, "w"), indent=1)
