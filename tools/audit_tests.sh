#!/bin/bash
# Runs the repository's own test-suite with the function-level monitors on (vmon/audit_plugin.py), in a
# scratch worktree of /repo's HEAD so that nothing else is disturbed.  Prints the monitor statistics.
wt=/var/tmp/audit_wt
git -C /repo worktree remove --force $wt 2>/dev/null
git -C /repo worktree add --detach $wt HEAD >/dev/null 2>&1 || exit 3
trap 'git -C /repo worktree remove --force '$wt' >/dev/null 2>&1' EXIT
out=${1:-/tmp/verif_audit.json}
cd $wt && VERIF_AUDIT_OUT=$out PYTHONPATH=$wt:/verif:/verif/.deps /venv/bin/python -m pytest -q -p no:cacheprovider \
   -p vmon.audit_plugin --timeout=900 --continue-on-collection-errors 2>&1 | tail -3
/venv/bin/python - $out <<'PY'
import json, sys
d = json.load(open(sys.argv[1]))
for k, v in sorted(d["stats"].items()):
    print("  %-45s %d" % (k, v))
print("violations recorded:", len(d["violations"]))
for v in d["violations"][:12]:
    print("  ", json.dumps(v)[:300])
PY
