#!/bin/bash
# re-runs every confirmed seed against the check of its own property (final check versions), quick tier,
# plus the other checks listed for seeds whose own check is known to be silent
cd /verif
declare -A EXTRA=( [C01_a]="C04 C07" [C02_c]="C05" [C14_d]="C04" [C06_e]="C11" [C06_f]="C11" [C04_a]="C07" [C15_d]="C12" [C13_c]="C12" [C18_e]="C12" [C19_c]="C07" )
for d in seeded/C??_?; do
  n=$(basename $d)
  [ -n "$ONLY" ] && ! echo " $ONLY " | grep -q " $n " && continue
  pid=$(python3 -c "import json;print(json.load(open('$d/meta.json'))['property'])")
  python3 tools/seed_vs_checks.py $n $pid ${EXTRA[$n]} 2>&1 | tail -3
done
echo RERUNDONE
