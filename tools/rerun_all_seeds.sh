#!/bin/bash
# re-runs every confirmed seed against the check of its own property (final check versions), quick tier
cd /verif
for d in seeded/C??_?; do
  n=$(basename $d)
  pid=$(python3 -c "import json;print(json.load(open('$d/meta.json'))['property'])")
  python3 tools/seed_vs_checks.py $n $pid
done
