#!/usr/bin/env python3
"""validates MANIFEST.json and every evidence file against the schemas in /root/.vp (run with python3-vt)"""
import glob
import json
import sys

import jsonschema

ok = True
m = json.load(open("/verif/MANIFEST.json"))
jsonschema.validate(m, json.load(open("/root/.vp/MANIFEST.schema.json")))
es = json.load(open("/root/.vp/EVIDENCE.schema.json"))
ids = {c["property_id"] for c in m["checks"]}
for c in m["checks"]:
    p = c["evidence_file"]
    try:
        e = json.load(open(p))
        jsonschema.validate(e, es)
        assert e["property_id"] == c["property_id"]
        assert e["level"] == c["level_claimed"]["category"], (e["level"], c["level_claimed"]["category"])
        print("%s ok tier=%s seed=%s evals=%d distinct=%d verdict=%s wall=%ss" % (
            c["property_id"], e["tier"], e["seed"], e["coverage"]["evaluations"],
            e["coverage"]["distinct_nontrivial"], e["coverage"].get("verdict"), e["wall_s"]))
    except Exception as ex:  # noqa
        ok = False
        print("%s INVALID: %s" % (c["property_id"], str(ex)[:200]))
props = [json.loads(l)["id"] for l in open("/verif/properties.jsonl")]
na = {x["property_id"] for x in m.get("not_applicable", [])}
missing = [p for p in props if p not in ids and p not in na]
if missing:
    ok = False
    print("properties neither claimed nor not_applicable:", missing)
sys.exit(0 if ok else 1)
