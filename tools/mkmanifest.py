#!/usr/bin/env python3
"""Regenerates MANIFEST.json from the per-property texts below and from which
vchk/Cxx.py drivers exist.  Properties without a driver are listed under
not_applicable with the reason 'check not built yet' (never silently)."""
import json
import os

ROOT = os.path.dirname(os.path.dirname(os.path.abspath(__file__)))

TECH = {
    "C01": ("runtime monitor: independent RDKit element/charge balance oracle on every solved row returned by the real Balancer over corpus, redox-template, ionic/heavy-element, dative-bond, deletion, marker and large-batch workloads, with a fault injected into the second rule-based run; element-key audit of the real decomposer drives exchange reactions for colliding symbols", "4 C01"),
    "C02": ("runtime monitor: canonical-fragment multiset containment oracle (input side within output side; input_reaction == de-mapped input) on rows of the real pipeline, incl. marker-collision inputs and result rows that are edited and fed back", "4 C02 / 9"),
    "C03": ("runtime monitor on returned rows + stage snapshots: declined rows equal their input and carry an issue, solved rows name a method and carry none, carbon-excess products are declined; zero-confidence family at the default threshold; transient faults injected into the late stages (whatever rows come back are judged)", "4 C03"),
    "C04": ("runtime monitor: oracle-balanced inputs (shipped curated reactions, reversals, multiples, families of one reaction with its multiples in one batch, unions, ionic/heavy/dative constructions, result rows fed back) must come back input-balanced and unchanged; converse on unbalanced inputs", "4 C04"),
    "C05": ("runtime monitor at the client boundary: row count/order/identity oracle over enumerated sequences of valid (incl. titled / CXSMILES / unusual spellings) and malformed rows (incl. non-string values) x batch sizes x input sources, and over the CLI's output files", "4 C05"),
    "C06": ("run-vs-run metamorphic monitor: same reactions alone / co-batched / permuted / partitioned / different n_jobs must give identical rows; stats additivity and partition independence; processing-history blocks in dataset order and in reagent clusters (warm process vs fresh interpreter in reverse order vs second pass); wall-clock taint excluded", "4 C06 / 9"),
    "C07": ("runtime contracts on the real decomposer/comparator/carbon check (also the real decompose->compare chain on reactions and the count cache across element types) against the independent composition oracle; periodic-table sweep, dot-spanning ring closures, exhaustive small composition-vector pairs", "4 C07 / 9"),
    "C08": ("runtime postconditions on the real rule matcher / imputer / constraint (judged on fragment multisets): completions re-summed with oracle compositions, only database compounds (both shipped databases side by side in one process), no dihalogens on the product side over repeated constraint passes; exhaustive small imbalance vectors", "4 C08"),
    "C09": ("runtime postconditions on the real merge(): atom conservation, no open boundary, cut-merge round trip unless a restriction rule is reported, reference expansion over (molecule, acyclic single bond) pairs incl. isotope-labelled and sulfur-halide molecules, both fragment orders and random rootings", "4 C09"),
    "C10": ("runtime monitor at exit of the real MCSSearch.find (also with a process pool) and get_largest_condition: attribution, containment (RDKit substructure) and maximality against the captured condition results; forced-canceled inner searches; exhaustive small result tables", "4 C10"),
    "C11": ("fault injection at the real failure sites of the MCS stage (delay beyond budget, raise, cancelled FindMCS, inner-step failures, line-level delays in the zombie thread, long hangs followed by a clean re-run, real-budget leading timeouts, non-default id column) with run-vs-fault-free comparison and induced-timeout detection", "4 C11"),
    "C12": ("history and crash-point enumeration over a shared cache directory: cached run vs uncached run of the real Balancer; every truncated / corrupted on-disk state (recursive, cuts at multi-byte characters), real kills at the k-th write and at the k-th statement inside the cache manager's own code (sys.monitoring); entry-addressing stress: the hooked key function driven with 4e5 / 2e6 distinct batches, two batches sharing an address re-run end to end and judged against the uncached run", "4 C12"),
    "C13": ("run-vs-run monitor across thresholds (incl. observed confidences, their float neighbours and +-0.0004) on rows of the real Balancer, with and without the result cache, and back to threshold 0 on the same object", "4 C13"),
    "C14": ("metamorphic monitor: equivalent spellings / molecule orders of one reaction through the real Balancer must give the same verdict and added-fragment multisets (bases incl. ambiguous-completion imbalances, H2 on the reactant side, spectator copies, families with other multiplicities in the same batch; also re-spellings of reactions whose first spelling was declined)", "4 C14 / 9"),
    "C15": ("runtime postcondition on the real remove_atom_mapping against the RDKit-API de-mapping oracle over a periodic-table bracket-atom generator and mapped corpus; map-free outputs of real pipeline runs incl. a default run after a keep-maps run on a shared cache directory", "4 C15"),
    "C16": ("runtime monitor: renumbering invariance of is_functional_group (RenumberAtoms and re-parsed random SMILES) and agreement of pattern_match with an independent backtracking sub-graph matcher, incl. molecules whose hydrogens are graph atoms", "4 C16"),
    "C17": ("runtime monitor: idempotence, permutation/spelling invariance of normalize_smiles and symmetry/range of wc_similarity, incl. isomers with colliding sort keys; the real `synrbl benchmark` command on files of oracle-checked variants (every row must be counted correct)", "4 C17"),
    "C18": ("runtime monitor: stats returned by the real run re-derived from its rows and from stage snapshots (runs with repeated reactions, malformed rows, thresholds at observed confidences, shared cache directories); CLI .stats file vs CSV", "4 C18"),
    "C19": ("icontract class invariant on the real RuleImputeManager + sequential reference model over enumerated and random edit histories and periodic-table histories (every element in seven forms)", "4 C19"),
    "C20": ("runtime postcondition on the real MoleculeStandardizer: parsable, composition-preserving, idempotent; generated enol / hemiketal / cascade families in several atom orders, and on every call made inside real pipeline runs", "4 C20"),
}

LEVEL = {"C11": "fault_enumeration", "C12": "fault_enumeration"}

LEVEL_TEXT = {
    "exploration": "Held on the executions this run produced: an oracle that shares no code with SynRBL judged every observed event; reach comes from corpus + generated + hostile workloads, and the evidence lists what the monitor saw. It says nothing about inputs that were not driven.",
    "fault_enumeration": "Enumerated fault subsets / histories / on-disk crash states are driven through the real code and every completed run is compared with the fault-free (or cache-free) run; exhaustive for the small sub-spaces named in the evidence, sampled beyond.",
}

NOTE = ("Trusted base: RDKit (parser, valence model, canonical SMILES, substructure matcher), CPython, "
        "and the independence of the oracle code in vmon/ from synrbl (shown by the seeded-defect runs in DESIGN.md).")


def main():
    checks = []
    na = []
    for i in range(1, 21):
        pid = "C%02d" % i
        if os.path.exists(os.path.join(ROOT, "vchk", pid + ".py")):
            lvl = LEVEL.get(pid, "exploration")
            checks.append({
                "property_id": pid,
                "quick_cmd": "./check %s --tier quick" % pid,
                "thorough_cmd": "./check %s --tier thorough" % pid,
                "evidence_file": "/verif/evidence/%s.json" % pid,
                "replay_cmd_template": "./check %s --replay {path}" % pid,
                "engine": "vchk",
                "level_claimed": {"category": lvl, "text": LEVEL_TEXT[lvl],
                                  "design_ref": "DESIGN.md section " + TECH[pid][1]},
                "level_note": NOTE,
                "technique": TECH[pid][0],
            })
        else:
            na.append({"property_id": pid, "reason": "check not built yet (work in progress; the design in DESIGN.md section 4 applies)"})
    m = {
        "version": 1,
        "setup_cmd": "./setup.sh",
        "hooks": {
            "guard": "SYNRBL_VERIF",
            "enable": "no source change is needed: ./check sets SYNRBL_VERIF=1 and the harness wraps the real functions at run time (instance/class level patching from /verif/vmon); /repo is imported as is (editable install)",
            "baseline_off_cmd": "cd /repo && env -u SYNRBL_VERIF /venv/bin/python -m pytest -ra -q -p no:cacheprovider --timeout=900 --continue-on-collection-errors",
            "source_commits": [],
            "add_only": True,
        },
        "engines": [{"name": "vchk", "path": "/verif/vchk", "serves_properties": [c["property_id"] for c in checks],
                     "kind_free_text": "python runtime monitors (wrappers, icontract contracts, reference models, fault injection) around the real synrbl code, sharded over subprocesses"}],
        "checks": checks,
        "not_applicable": na,
        "notes": "All checks: ./check <ID> [--tier quick|thorough]; honours VERIF_SEED / VERIF_TIER; exit 0 held, 1 VIOLATION, 2 INCONCLUSIVE (never on the unchanged tree).",
    }
    with open(os.path.join(ROOT, "MANIFEST.json"), "w") as f:
        json.dump(m, f, indent=1)
    print("MANIFEST: %d checks, %d not yet built" % (len(checks), len(na)))


if __name__ == "__main__":
    main()
