#!/bin/bash
# tools/sweep.sh <tier> <seeds...> -- <ids...>    runs checks against a clean scratch worktree of /repo HEAD
tier=$1; shift
seeds=(); while [ "$1" != "--" ]; do seeds+=($1); shift; done; shift
wt=/var/tmp/clean_wt
[ -d $wt ] || git -C /repo worktree add --detach $wt HEAD >/dev/null 2>&1
git -C $wt checkout -q --detach $(git -C /repo rev-parse HEAD)
for id in "$@"; do for s in "${seeds[@]}"; do
  t0=$(date +%s)
  out=$(cd /verif && VERIF_SEED=$s VERIF_REPO=$wt ./check $id --tier $tier 2>&1); rc=$?
  echo "$id tier=$tier seed=$s rc=$rc wall=$(( $(date +%s) - t0 ))s $(echo "$out" | grep -e '^INCONCLUSIVE' -e 'new-violation kind' | head -3 | tr '\n' ' ')"
  [ $rc -ne 0 ] && echo "$out" | grep -m3 witness | cut -c1-600
done; done
