#!/bin/bash
# runs the repository's own suite with the guard OFF and compares with BASELINE.json (268 stable passes)
out=${1:-/tmp/repo_tests.out}
cd /repo && env -u SYNRBL_VERIF /venv/bin/python -m pytest -ra -q -p no:cacheprovider --timeout=900 --continue-on-collection-errors --junitxml=$out.xml > $out 2>&1
/venv/bin/python - "$out.xml" <<'PY'
import json,sys,xml.etree.ElementTree as ET
base=set(json.load(open('/root/.vp/BASELINE.json'))['stable_pass'])
t=ET.parse(sys.argv[1]).getroot()
ok=set()
bad=[]
for tc in t.iter('testcase'):
    name=tc.get('classname')+'::'+tc.get('name')
    if any(c.tag in ('failure','error') for c in tc): bad.append(name)
    elif not any(c.tag=='skipped' for c in tc): ok.add(name)
missing=base-ok
print("passed=%d failed=%d baseline_missing=%d"%(len(ok),len(bad),len(missing)))
for m in sorted(missing): print("  MISSING",m)
PY
