#!/usr/bin/env python3
"""tools/seed_vs_checks.py <seed name> <check id> [<check id> ...] [--tier quick|thorough]

Applies /verif/seeded/<name>/patch.diff to /repo (git apply), runs the given checks against it, undoes
the change straight afterwards (git checkout -- .) and records the outcome in the seed's meta.json."""
import json
import os
import re
import subprocess
import sys
import time

args = [a for a in sys.argv[1:] if not a.startswith("--")]
tier = "quick"
if "--tier" in sys.argv:
    tier = sys.argv[sys.argv.index("--tier") + 1]
    args = [a for a in args if a != tier]
name, ids = args[0], args[1:]
sdir = "/verif/seeded/%s" % name
patch = os.path.join(sdir, "patch.diff")


def sh(cmd, **kw):
    return subprocess.run(cmd, shell=True, capture_output=True, text=True, **kw)


if sh("git -C /repo status --porcelain --untracked-files=no").stdout.strip():
    sys.exit("/repo is not clean")
if sh("git -C /repo apply %s" % patch).returncode != 0:
    if sh("git -C /repo apply --3way %s" % patch).returncode != 0:
        sh("git -C /repo reset -q HEAD ; git -C /repo checkout -- .")
        sys.exit("patch does not apply")
results = {}
try:
    for cid in ids:
        t0 = time.time()
        p = sh("cd /verif && ./check %s --tier %s" % (cid, tier))
        out = p.stdout
        kinds = dict(re.findall(r"new-violation kind (\S+)\s+(\d+)", out))
        verdict = "VIOLATION" if p.returncode == 1 else "held" if p.returncode == 0 else "inconclusive/error rc=%d" % p.returncode
        results[cid] = {"tier": tier, "exit": p.returncode, "verdict": verdict,
                        "violation_kinds": {k: int(v) for k, v in kinds.items()},
                        "wall_s": round(time.time() - t0)}
        w = re.search(r"witness: (.*)", out)
        if w:
            results[cid]["first_witness"] = w.group(1)[:400]
        print(name, cid, verdict, kinds)
finally:
    sh("git -C /repo reset -q HEAD ; git -C /repo checkout -- .")
    # the evidence files now describe a mutated tree: restore the committed ones
    sh("cd /verif && git checkout -- evidence")
meta_p = os.path.join(sdir, "meta.json")
meta = json.load(open(meta_p))
meta.setdefault("checks", {}).update(results)
meta["caught_by"] = sorted(k for k, v in meta["checks"].items() if v["exit"] == 1)
json.dump(meta, open(meta_p, "w"), indent=1)
