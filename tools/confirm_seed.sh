#!/bin/bash
# tools/confirm_seed.sh <name>      e.g. C09_a
# Confirms a seeded defect independently of whoever wrote it, in a scratch worktree of /repo's HEAD
# (outside /repo and /verif): the patch applies, the repository's suite still gives 268 passes / the
# same 3 failures with it, the demonstration fails with it and passes without it.  Then stores it as
# /verif/seeded/<name>/{patch.diff,demo.py,meta.json}.  The scratch worktree is removed afterwards.
set -u
name=$1
inc=/verif/seeded/incoming
wt=/var/tmp/seedwt_$name
out=/verif/seeded/$name
[ -f $inc/$name.patch.diff ] || { echo "no such seed $name"; exit 3; }
git -C /repo worktree remove --force $wt 2>/dev/null
git -C /repo worktree add --detach $wt HEAD >/dev/null 2>&1 || { echo "worktree failed"; exit 3; }
trap 'git -C /repo worktree remove --force '$wt' >/dev/null 2>&1' EXIT
cd $wt
cp $inc/$name.demo.py $wt/demo_seed.py
run_demo() { (cd $wt && PYTHONPATH=$wt timeout 1200 /venv/bin/python demo_seed.py >/tmp/seed_demo_$name.$1 2>&1; echo $?); }
rc_without=$(run_demo without)
applied=plain
git apply $inc/$name.patch.diff 2>/dev/null || { applied=3way; git apply --3way $inc/$name.patch.diff >/dev/null 2>&1 || applied=FAILED; }
if [ $applied = FAILED ]; then echo "$name: patch does not apply to HEAD"; exit 2; fi
git diff HEAD -- synrbl > /tmp/seed_rebased_$name.diff
rc_with=$(run_demo with)
suite=$(cd $wt && PYTHONPATH=$wt env -u SYNRBL_VERIF /venv/bin/python -m pytest -q -p no:cacheprovider --timeout=900 --continue-on-collection-errors 2>&1 | tail -1)
failed=$(cd $wt && PYTHONPATH=$wt env -u SYNRBL_VERIF /venv/bin/python -m pytest -q -p no:cacheprovider --timeout=900 --continue-on-collection-errors -x --co -q 2>/dev/null | tail -1)
echo "$name: applied=$applied demo_without=$rc_without demo_with=$rc_with suite='$suite'"
ok=no
case "$suite" in *"3 failed, 268 passed"*) [ "$rc_without" = 0 ] && [ "$rc_with" != 0 ] && ok=yes;; esac
mkdir -p $out
cp /tmp/seed_rebased_$name.diff $out/patch.diff
cp $inc/$name.demo.py $out/demo.py
/venv/bin/python - "$name" "$ok" "$applied" "$rc_without" "$rc_with" "$suite" <<'PY'
import json, sys
name, ok, applied, rcw, rcwith, suite = sys.argv[1:7]
src = json.load(open('/verif/seeded/incoming/%s.meta.json' % name))
meta = {
    "name": name,
    "property": src.get("property", name.split("_")[0]),
    "summary": src.get("summary"),
    "breaks": src.get("breaks"),
    "needs_to_manifest": src.get("needs_to_manifest"),
    "author": "independent sub-agent given only the property text and a scratch worktree",
    "confirmed_by_us": {
        "confirmed": ok == "yes",
        "patch_applied": applied,
        "demo_exit_without_change": int(rcw),
        "demo_exit_with_change": int(rcwith),
        "repository_suite_with_change": suite,
        "how": "tools/confirm_seed.sh %s (scratch worktree of /repo HEAD under /var/tmp, PYTHONPATH shadowing)" % name,
    },
}
old = {}
try:
    old = json.load(open('/verif/seeded/%s/meta.json' % name))
except Exception:
    pass
if "checks" in old:
    meta["checks"] = old["checks"]
json.dump(meta, open('/verif/seeded/%s/meta.json' % name, 'w'), indent=1)
print("confirmed" if ok == "yes" else "NOT CONFIRMED")
PY
