"""Monitored runs of the real Balancer.  The real pipeline object is used; the
tracer only wraps bound stage methods on the *instance* (arguments and results
are passed through untouched) and records, after every stage, what each row
looks like.  Observation at the client boundary = the returned rows + stats."""
import copy
import io
import contextlib
import logging
import os
import sys
import time

logging.getLogger("synrbl").setLevel(logging.CRITICAL)

STAGES = [
    ("input_check", "input_validator", "check"),
    ("rb1", "rb_method", "run"),
    ("rb_check", "rb_validator", "check"),
    ("mcs_find", "mcs_search", "find"),
    ("mcs_impute", "mcs_method", "run"),
    ("mcs_check", "mcs_validator", "check"),
    ("conf", "conf_predictor", "predict"),
]


def make_balancer(**kw):
    import warnings
    warnings.filterwarnings("ignore")
    from synrbl import Balancer

    kw.setdefault("n_jobs", 1)
    with contextlib.redirect_stderr(io.StringIO()):
        return Balancer(**kw)


def _snap(reactions, rcol):
    out = []
    for r in reactions:
        if not isinstance(r, dict):
            continue
        out.append((str(r.get("id")), r.get(rcol), bool(r.get("solved")),
                    r.get("solved_by"), r.get("issue")))
    return out


class Tracer:
    """Records per batch: inputs, per-stage snapshots, returned rows, stats."""

    def __init__(self, balancer, rcol="reaction"):
        self.b = balancer
        self.rcol = rcol
        self.batches = []
        self.cur = None
        self.missing = []
        self._orig = []
        self._install()

    def _install(self):
        b = self.b
        counts = {}
        for label, holder, meth in STAGES:
            obj = getattr(b, holder, None)
            fn = getattr(obj, meth, None) if obj is not None else None
            if fn is None:
                self.missing.append(label)
                continue
            self._wrap(obj, meth, fn, label, counts)
        pp = getattr(b, "_Balancer__post_process", None)
        if pp is None:
            self.missing.append("postproc")
        else:
            self._wrap(b, "_Balancer__post_process", pp, "postproc", counts)
        rp = getattr(b, "_Balancer__run_pipeline", None)
        self.have_rp = rp is not None
        if rp is None:
            # the private per-batch method is not there under that name (it is private: it may be renamed or
            # split at any time).  Batches are then opened at the first public stage of a batch (the input
            # validator), without the batch's stats / returned rows; everything that decides a property sits
            # at the client boundary anyway, the snapshots only localise.
            self.missing.append("run_pipeline")
        else:
            tr = self

            def run_pipeline(reactions, stats=None, *a, **k):
                rec = {"inputs": copy.deepcopy(reactions), "stages": [],
                       "rows": None, "stats": None, "error": None}
                tr.cur = rec
                tr.batches.append(rec)
                tr._n = {}
                try:
                    out = rp(reactions, stats, *a, **k)
                    rec["rows"] = out
                    rec["stats"] = dict(stats) if stats is not None else None
                    return out
                except BaseException as e:
                    rec["error"] = "%s: %s" % (type(e).__name__, e)
                    raise
                finally:
                    tr.cur = None

            b._Balancer__run_pipeline = run_pipeline
            self._orig.append((b, "_Balancer__run_pipeline"))

    def _wrap(self, obj, meth, fn, label, counts):
        tr = self

        def wrapper(reactions, *a, **k):
            if not tr.have_rp and label == "input_check":
                rec = {"inputs": [dict(r) for r in reactions if isinstance(r, dict)], "stages": [],
                       "rows": None, "stats": None, "error": None, "opened_at": "input_check"}
                tr.cur = rec
                tr.batches.append(rec)
                tr._n = {}
            try:
                return fn(reactions, *a, **k)
            finally:
                if tr.cur is not None:
                    n = tr._n.get(label, 0) + 1
                    tr._n[label] = n
                    name = label if n == 1 else "%s%d" % (label, n)
                    if label == "rb1" and n == 2:
                        name = "rb2"
                    if label == "mcs_check" and n == 2:
                        name = "final_check"
                    tr.cur["stages"].append((name, _snap(reactions, tr.rcol)))

        setattr(obj, meth, wrapper)
        self._orig.append((obj, meth))

    def remove(self):
        for obj, meth in self._orig:
            try:
                delattr(obj, meth)
            except AttributeError:
                pass
        self._orig = []


def run(b, inputs, batch_size=None, tracer=None, quiet=True):
    """-> (rows | None, stats, error)  -- exceptions escaping rebalance are
    returned, not raised (the caller decides whether they are violations)."""
    stats = {}
    err = None
    rows = None
    if tracer is not None:
        tracer.batches = []
    buf = io.StringIO()
    try:
        with contextlib.redirect_stderr(buf), contextlib.redirect_stdout(buf):
            rows = b.rebalance(copy.deepcopy(inputs), output_dict=True, stats=stats,
                               batch_size=batch_size)
    except Exception as e:  # noqa
        err = "%s: %s" % (type(e).__name__, e)
    return rows, stats, err


def edit_signature(batch_rec, row_id, input_reaction):
    """sequence of stages that changed this row's reaction text"""
    sig = []
    prev = input_reaction
    for name, snap in batch_rec["stages"]:
        for rid, rx, solved, by, issue in snap:
            if rid == row_id:
                if rx != prev:
                    sig.append(name if rx != input_reaction else name + ":revert")
                    prev = rx
                break
    return tuple(sig)
