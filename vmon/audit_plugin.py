"""pytest plugin: runs the repository's own tests with the function-level monitors switched on
(false-alarm audit, DESIGN.md section 6.2).  Every contract evaluation during the suite must be
`held` or `out_of_domain`; anything else is either a monitor that is stricter than what correct code
legitimately does, or a defect the tests do not assert.  Usage (tools/audit_tests.sh):

    PYTHONPATH=/verif:/verif/.deps pytest -p vmon.audit_plugin ...

Wrappers never change arguments or results and never raise."""
import json
import os
from collections import Counter

from vmon import oracle

STATS = Counter()
BAD = []


def _bad(kind, **kw):
    STATS["violation:" + kind] += 1
    if len(BAD) < 200:
        BAD.append({"kind": kind, **{k: str(v)[:300] for k, v in kw.items()}})


def _install():
    from synrbl.SynProcessor import RSMIDecomposer
    import synrbl.SynUtils.chem_utils as CU
    from synrbl.SynChemImputer.molecule_standardizer import MoleculeStandardizer
    import synrbl.SynMCSImputer.merge as M
    from rdkit import Chem

    # C07: decomposer vs independent composition
    orig_dec = RSMIDecomposer.decompose

    def decompose(smiles):
        out = orig_dec(smiles)
        try:
            if isinstance(smiles, str) and oracle.in_domain_smiles(smiles):
                STATS["C07.decompose:evaluated"] += 1
                want, q = oracle.comp(smiles)
                got = {k: v for k, v in out.items() if k != "Q" and v}
                if got != dict(want) or out.get("Q", 0) != q:
                    _bad("C07.composition_wrong", smiles=smiles, got=out)
            else:
                STATS["C07.decompose:out_of_domain"] += 1
        except Exception as e:  # noqa
            STATS["monitor_error"] += 1
        return out

    RSMIDecomposer.decompose = staticmethod(decompose)

    # C15: remove_atom_mapping
    orig_ram = CU.remove_atom_mapping

    def remove_atom_mapping(smiles):
        out = orig_ram(smiles)
        try:
            sides = smiles.split(">>") if isinstance(smiles, str) else []
            outs = out.split(">>") if isinstance(out, str) else []
            if sides and len(sides) == len(outs) and all(oracle.in_domain_smiles(s) for s in sides if s):
                STATS["C15.remove_atom_mapping:evaluated"] += 1
                for a, b in zip(sides, outs):
                    if a and oracle.frags(a) != oracle.frags(b):
                        _bad("C15.molecule_changed", smiles=smiles, output=out)
                        break
            else:
                STATS["C15.remove_atom_mapping:out_of_domain"] += 1
        except Exception:
            STATS["monitor_error"] += 1
        return out

    CU.remove_atom_mapping = remove_atom_mapping
    import synrbl.SynUtils as SU
    import synrbl.preprocess as PP
    for mod in (SU, PP):
        if getattr(mod, "remove_atom_mapping", None) is orig_ram:
            setattr(mod, "remove_atom_mapping", remove_atom_mapping)

    # C20: standardizer
    orig_call = MoleculeStandardizer.__call__

    def call(self, smiles):
        out = orig_call(self, smiles)
        try:
            if isinstance(smiles, str) and smiles and oracle.in_domain_smiles(smiles):
                STATS["C20.standardizer:evaluated"] += 1
                if oracle.parse(out) is None or oracle.comp(out) != oracle.comp(smiles):
                    _bad("C20.composition_changed", smiles=smiles, output=out)
            else:
                STATS["C20.standardizer:out_of_domain"] += 1
        except Exception:
            STATS["monitor_error"] += 1
        return out

    MoleculeStandardizer.__call__ = call

    # C09: conservation on every merge() the tests perform
    orig_merge = M.merge

    def merge(cset):
        try:
            frs = [(c.smiles, len(c.boundaries)) for c in cset.compounds]
        except Exception:
            frs = None
        out = orig_merge(cset)
        try:
            from synrbl.SynMCSImputer.rules import ExpandRule
            mols = [Chem.MolFromSmiles(s) for s, _ in (frs or [])]
            dom = frs is not None and all(m is not None and not oracle.has_radical(m) for m in mols)
            if dom:
                STATS["C09.merge:evaluated"] += 1
                names = [r.name for r in out.rules]
                removed = sum(1 for s, nb in frs if s == "O" and nb == 0) if "remove_water_catalyst" in names else 0
                add = sum(Chem.MolFromSmiles(r.compound["smiles"]).GetNumHeavyAtoms()
                          for r in out.rules if isinstance(r, ExpandRule))
                want = sum(m.GetNumHeavyAtoms() for m in mols) + add - removed
                got = Chem.MolFromSmiles(out.smiles)
                if got is None or len(out.boundaries) != 0 or got.GetNumHeavyAtoms() != want:
                    _bad("C09.merge_not_conserving", fragments=frs, result=out.smiles, rules=names)
            else:
                STATS["C09.merge:out_of_domain"] += 1
        except Exception:
            STATS["monitor_error"] += 1
        return out

    M.merge = merge
    import synrbl.SynMCSImputer.mcs_based_method as MB
    if getattr(MB, "merge", None) is orig_merge:
        MB.merge = merge

    # C17: idempotence of normalisation
    orig_norm = CU.normalize_smiles

    def normalize_smiles(smiles):
        out = orig_norm(smiles)
        try:
            if isinstance(smiles, str) and ">>" not in smiles and "." not in smiles:
                return out  # inner recursion level
            ok = isinstance(smiles, str) and all(oracle.in_domain_smiles(s) for s in smiles.split(">>") if s) \
                and not any(c in smiles for c in "@/\\")
            if ok:
                STATS["C17.normalize:evaluated"] += 1
                if orig_norm(out) != out:
                    _bad("C17.not_idempotent", smiles=smiles, once=out)
            else:
                STATS["C17.normalize:out_of_domain"] += 1
        except Exception:
            STATS["monitor_error"] += 1
        return out

    CU.normalize_smiles = normalize_smiles


def pytest_configure(config):
    try:
        _install()
        STATS["installed"] = 1
    except Exception as e:  # noqa
        STATS["install_failed"] = 1
        BAD.append({"kind": "install_failed", "error": repr(e)})


def pytest_sessionfinish(session, exitstatus):
    out = os.environ.get("VERIF_AUDIT_OUT", "/tmp/verif_audit.json")
    with open(out, "w") as f:
        json.dump({"stats": dict(STATS), "violations": BAD}, f, indent=1)
