"""Independent reference sub-graph matcher (backtracking monomorphism).
Atoms match on element symbol, bonds on RDKit bond type; the mapping is
injective and every pattern bond (ring closures included) must be present."""


def _adj(mol):
    adj = {a.GetIdx(): {} for a in mol.GetAtoms()}
    for b in mol.GetBonds():
        i, j = b.GetBeginAtomIdx(), b.GetEndAtomIdx()
        adj[i][j] = b.GetBondType()
        adj[j][i] = b.GetBondType()
    return adj


def occurrences_containing(mol, anchor, pattern, limit=1):
    """list of mappings {pattern_idx: mol_idx} that contain `anchor` (up to limit)"""
    madj, padj = _adj(mol), _adj(pattern)
    msym = [a.GetSymbol() for a in mol.GetAtoms()]
    psym = [a.GetSymbol() for a in pattern.GetAtoms()]
    np_ = len(psym)
    found = []

    def order_from(start):
        order, seen = [start], {start}
        k = 0
        while k < len(order):
            for n in padj[order[k]]:
                if n not in seen:
                    seen.add(n)
                    order.append(n)
            k += 1
        for p in range(np_):  # disconnected patterns do not occur, but stay total
            if p not in seen:
                order.append(p)
        return order

    def extend(order, k, f, used):
        if len(found) >= limit:
            return
        if k == len(order):
            found.append(dict(f))
            return
        p = order[k]
        mapped_nb = [(q, t) for q, t in padj[p].items() if q in f]
        if mapped_nb:
            q0, t0 = mapped_nb[0]
            cands = [m for m, t in madj[f[q0]].items() if t == t0]
        else:
            cands = list(range(len(msym)))
        for m in cands:
            if m in used or msym[m] != psym[p]:
                continue
            if all(madj[f[q]].get(m) == t for q, t in mapped_nb):
                f[p] = m
                used.add(m)
                extend(order, k + 1, f, used)
                used.discard(m)
                del f[p]
                if len(found) >= limit:
                    return

    for start in range(np_):
        if psym[start] != msym[anchor]:
            continue
        extend(order_from(start), 1, {start: anchor}, {anchor})
        if len(found) >= limit:
            break
    return found


def check_mapping(mol, anchor, pattern, pairs):
    """pairs: iterable of (mol_idx, pattern_idx) as the code under test reports
    them -> list of defects: strings naming what is wrong with the reported
    occurrence.  Empty list = a real occurrence containing the anchor."""
    madj, padj = _adj(mol), _adj(pattern)
    defects = []
    f = {}
    for m, p in pairs:
        f.setdefault(p, set()).add(m)
    if any(len(v) > 1 for v in f.values()):
        # a tree-unrolled ring: the same pattern atom reached along two branches with different images
        defects.append("pattern_atom_mapped_twice")
    if len(f) != pattern.GetNumAtoms():
        defects.append("pattern_atoms_unmapped")
        return defects
    images = [m for v in f.values() for m in v]
    if anchor not in images:
        defects.append("anchor_not_in_match")
    if len(set(images)) != len(images):
        defects.append("not_injective")
    for p, ms in f.items():
        if any(mol.GetAtomWithIdx(m).GetSymbol() != pattern.GetAtomWithIdx(p).GetSymbol() for m in ms):
            defects.append("element_mismatch")
    ring = pattern.GetRingInfo()
    for b in pattern.GetBonds():
        i, j = b.GetBeginAtomIdx(), b.GetEndAtomIdx()
        # with several images per pattern atom a pattern bond counts as present when some pair of
        # images carries it (each tree edge was checked between one specific pair)
        types = {madj[mi].get(mj) for mi in f[i] for mj in f[j]}
        if b.GetBondType() not in types:
            inring = ring.NumBondRings(b.GetIdx()) > 0
            missing = types <= {None}
            defects.append(("ring_bond_" if inring else "chain_bond_") + ("missing" if missing else "type_mismatch"))
    return defects
