"""Fault injection for the MCS stage, installed at run time around the real
functions (in-process, n_jobs=1).  Faults are placed only where the real code
can fail:
  F1  inside MCSMissingGraphAnalyzer.fit, per (reaction id, search condition):
      'delay' just beyond the thread-wait budget (timeout branch + zombie
      thread) or 'raise' (-> "MCS identification failed")
  F2  rdFMCS.FindMCS result forced to canceled for chosen inner calls
  F3  inside FindMissingGraphs.find_missing_parts_pairs, per reaction:
      'delay' beyond its 2 s wait or 'raise'
  F4  sys.monitoring LINE delays before / between the two writes
      mcs_data["mcs_results"] / mcs_data["sorted_reactants"] of single_mcs
The injector also logs what really happened (timeouts, cancels, durations)."""
import ast
import inspect
import sys
import textwrap
import threading
import time
import re as _re
_TIMEOUT_RX = _re.compile(r"time[\s-]?out|timed[\s-]out|time[\s-]limit|cancel+ed", _re.I)



class Injected(Exception):
    pass


class Injector:
    def __init__(self, budget=0.5):
        self.budget = budget
        self.plan = {}
        self.log = []
        self.lock = threading.Lock()
        self._installed = False
        self._tls = threading.local()
        self._fg_ids = []
        self._fg_k = 0
        self.line_targets = {}
        self.line_delay = {}
        self.id_key = "id"  # the Balancer's id column (public constructor argument id_col)

    # ------------------------------------------------------------ helpers
    @staticmethod
    def cond_index(kwargs):
        if kwargs.get("method") == "MCES":
            return 2
        return 0 if kwargs.get("RingMatchesRingOnly", True) else 1

    def note(self, *ev):
        with self.lock:
            self.log.append(ev)

    # ------------------------------------------------------------ install
    def install(self):
        if self._installed:
            return
        import synrbl.SynMCSImputer.SubStructure.mcs_process as MP
        import synrbl.SynMCSImputer.SubStructure.mcs_graph_detector as GD
        import synrbl.SynMCSImputer.MissingGraph.find_graph_dict as FG
        import synrbl.mcs_search as MS
        inj = self
        self.MP, self.GD, self.FG, self.MS = MP, GD, FG, MS

        # thread-wait budget of single_mcs_safe (a timing configuration, not a semantic change)
        d = list(MP.single_mcs_safe.__defaults__)
        self._orig_defaults = tuple(d)
        d[0] = self.budget
        MP.single_mcs_safe.__defaults__ = tuple(d)

        # F1
        orig_fit = GD.MCSMissingGraphAnalyzer.fit

        def fit(reaction_dict, *a, **k):
            rid = str(reaction_dict.get(inj.id_key))
            ci = inj.cond_index(k)
            inj._tls.job = (rid, ci)
            inj._tls.fmcs_k = 0
            inj._tls.ios_k = 0
            f = inj.plan.get("fit", {}).get("%s/%d" % (rid, ci))
            inj.note("fit", rid, ci, f)
            if f and f[0] == "delay":
                time.sleep(inj.budget + f[1])
            elif f and f[0] == "raise":
                raise Injected("injected failure in substructure search")
            return orig_fit(reaction_dict, *a, **k)

        GD.MCSMissingGraphAnalyzer.fit = staticmethod(fit)
        self._orig_fit = orig_fit

        # F5: an inner step of the iterative search fails (substructure removal for one reactant)
        SA = GD.SubstructureAnalyzer
        orig_ios = SA.identify_optimal_substructure

        def identify_optimal_substructure(self_, *a, **k):
            job = getattr(inj._tls, "job", None)
            kk = getattr(inj._tls, "ios_k", 0)
            inj._tls.ios_k = kk + 1
            if job is not None:
                want = inj.plan.get("inner_raise", {}).get("%s/%d" % job)
                if want is not None and (want == "all" or kk in want):
                    inj.note("inner_raise_injected", job[0], job[1], kk)
                    raise Injected("injected failure in an inner search step")
            return orig_ios(self_, *a, **k)

        SA.identify_optimal_substructure = identify_optimal_substructure
        self._orig_ios = orig_ios

        # real timeouts of the search wrapper are logged (treated as faults by the oracle)
        orig_safe = MP.single_mcs_safe

        def single_mcs_safe(data_dict, *a, **k):
            t0 = time.time()
            out = orig_safe(data_dict, *a, **k)
            dt = time.time() - t0
            rid = str(data_dict.get(inj.id_key))
            issue = out.get(k.get("issue_col", "issue"), "")
            inj.note("search_done", rid, inj.cond_index(k), round(dt, 3))
            if _TIMEOUT_RX.search(str(issue)) or dt >= 0.98 * inj.budget:  # by wording or by duration
                inj.note("search_timeout", rid, inj.cond_index(k), round(dt, 3))
            elif dt > 0.6 * inj.budget:
                inj.note("search_slow", rid, inj.cond_index(k), round(dt, 3))
            return out

        MP.single_mcs_safe = single_mcs_safe
        self._orig_safe = orig_safe

        # F2
        real = GD.rdFMCS

        class Canceled:
            def __init__(self, r):
                self.canceled = True
                self.numAtoms = r.numAtoms
                self.numBonds = r.numBonds
                self.smartsString = r.smartsString
                self.queryMol = getattr(r, "queryMol", None)

        class Proxy:
            def __getattr__(self, name):
                return getattr(real, name)

            @staticmethod
            def FindMCS(*a, **k):
                r = real.FindMCS(*a, **k)
                job = getattr(inj._tls, "job", None)
                kk = getattr(inj._tls, "fmcs_k", 0)
                inj._tls.fmcs_k = kk + 1
                if job is not None:
                    if r.canceled:
                        inj.note("findmcs_really_canceled", job[0], job[1], kk)
                    want = inj.plan.get("cancel", {}).get("%s/%d" % job)
                    if want is not None and (want == "all" or kk in want):
                        inj.note("findmcs_cancel_injected", job[0], job[1], kk)
                        return Canceled(r)
                return r

        GD.rdFMCS = Proxy()
        self._real_rdfmcs = real

        # F3
        cls = FG.FindMissingGraphs
        orig_fmp = cls.find_missing_parts_pairs

        def fmp(*a, **k):
            with inj.lock:
                kk = inj._fg_k
                inj._fg_k += 1
            rid = inj._fg_ids[kk] if kk < len(inj._fg_ids) else None
            f = inj.plan.get("frag", {}).get(str(rid))
            inj.note("frag", rid, f)
            if f and f[0] == "delay":
                time.sleep(2.0 + f[1])
            elif f and f[0] == "raise":
                raise Injected("injected failure in fragment analysis")
            return orig_fmp(*a, **k)

        cls.find_missing_parts_pairs = staticmethod(fmp)
        self._orig_fmp = orig_fmp

        orig_fgd = MS.find_graph_dict

        def find_graph_dict(mcs_dict, *a, **k):
            inj._fg_ids = [str(e.get(inj.id_key)) for e in mcs_dict]
            inj._fg_k = 0
            return orig_fgd(mcs_dict, *a, **k)

        MS.find_graph_dict = find_graph_dict
        self._orig_fgd = orig_fgd

        # F4
        self.lines_ok = False
        try:
            self._install_lines(MP.single_mcs)
            self.lines_ok = bool(self.line_targets.get("mcs_results")) and bool(self.line_targets.get("sorted_reactants"))
        except Exception:  # the record writes are not where the AST search expects them (another implementation)
            self.line_targets = {}
        self._installed = True

    def _install_lines(self, fn):
        src = textwrap.dedent(inspect.getsource(fn))
        tree = ast.parse(src)
        first = fn.__code__.co_firstlineno
        targets = {}
        for node in ast.walk(tree):
            if isinstance(node, ast.Assign) and len(node.targets) == 1:
                t = node.targets[0]
                if (isinstance(t, ast.Subscript) and isinstance(t.value, ast.Name) and t.value.id == "mcs_data"
                        and isinstance(t.slice, ast.Constant)):
                    targets[t.slice.value] = first + node.lineno - 1
        self.line_targets = targets  # {'mcs_results': line, 'sorted_reactants': line, ...}
        mon = sys.monitoring
        self._tool = mon.DEBUGGER_ID
        try:
            mon.use_tool_id(self._tool, "verif-linefail")
        except ValueError:
            pass
        inj = self
        code = fn.__code__

        def on_line(c, line):
            if c is code:
                d = inj.line_delay.get(line)
                if d:
                    job = getattr(inj._tls, "job", None)
                    only = inj.plan.get("line_jobs")
                    if only is None or (job is not None and "%s/%d" % job in only):
                        inj.note("line_delay", line, job, d)
                        time.sleep(d)
            return None

        mon.register_callback(self._tool, mon.events.LINE, on_line)
        mon.set_local_events(self._tool, code, mon.events.LINE)

    def set_plan(self, plan):
        self.plan = plan or {}
        self.log = []
        self.line_delay = {}
        for key, d in (self.plan.get("lines") or {}).items():
            ln = self.line_targets.get(key)
            if ln:
                self.line_delay[ln] = d

    def uninstall(self):
        if not self._installed:
            return
        self.MP.single_mcs_safe = self._orig_safe
        self.MP.single_mcs_safe.__defaults__ = self._orig_defaults
        self.GD.MCSMissingGraphAnalyzer.fit = staticmethod(self._orig_fit)
        self.GD.rdFMCS = self._real_rdfmcs
        self.GD.SubstructureAnalyzer.identify_optimal_substructure = self._orig_ios
        self.FG.FindMissingGraphs.find_missing_parts_pairs = staticmethod(self._orig_fmp)
        self.MS.find_graph_dict = self._orig_fgd
        try:
            mon = sys.monitoring
            mon.set_local_events(self._tool, self.MP.single_mcs.__code__, 0)
            mon.register_callback(self._tool, mon.events.LINE, None)
            mon.free_tool_id(self._tool)
        except Exception:
            pass
        self._installed = False
