"""Independent oracles.  Nothing here imports synrbl: the notion of "valid
molecule", "true composition" and "same molecule" is RDKit's, reached through
the RDKit API only (no symbol table of our own, no regex on SMILES)."""
from collections import Counter

from rdkit import Chem
from rdkit import RDLogger

RDLogger.DisableLog("rdApp.*")
_PT = Chem.GetPeriodicTable()


def parse(smiles):
    if not isinstance(smiles, str):
        return None
    try:
        return Chem.MolFromSmiles(smiles)
    except Exception:
        return None


def comp_mol(mol):
    """(Counter element -> count incl. every hydrogen, net formal charge)."""
    c = Counter()
    q = 0
    for a in mol.GetAtoms():
        c[_PT.GetElementSymbol(a.GetAtomicNum())] += 1
        h = a.GetTotalNumHs()
        if h:
            c["H"] += h
        q += a.GetFormalCharge()
    return c, q


def comp_mol_addhs(mol):
    """Second route to the same quantity (used by the self test only)."""
    m = Chem.AddHs(mol)
    c = Counter(_PT.GetElementSymbol(a.GetAtomicNum()) for a in m.GetAtoms())
    q = sum(a.GetFormalCharge() for a in m.GetAtoms())
    return c, q


def comp(smiles):
    m = parse(smiles)
    if m is None:
        return None
    return comp_mol(m)


def split_rsmi(rsmi):
    if not isinstance(rsmi, str) or rsmi.count(">>") != 1:
        return None
    r, p = rsmi.split(">>")
    return r, p


def balanced(rsmi):
    """True / False, or None when the string is not a parsable reaction."""
    sp = split_rsmi(rsmi)
    if sp is None:
        return None
    a, b = comp(sp[0]), comp(sp[1])
    if a is None or b is None:
        return None
    return a == b


def imbalance(rsmi):
    sp = split_rsmi(rsmi)
    a, b = comp(sp[0]), comp(sp[1])
    d = Counter(a[0])
    d.subtract(b[0])
    return {k: v for k, v in d.items() if v}, a[1] - b[1]


def demap_mol(mol):
    m = Chem.Mol(mol)
    for a in m.GetAtoms():
        a.SetAtomMapNum(0)
    return m


_canon_cache = {}


def _canon(f):
    """canonical SMILES that does not remember anything of cleared atom maps:
    stereo perceived while maps were present (maps break ring symmetry) is
    re-perceived by a round trip through text"""
    s1 = Chem.MolToSmiles(f)
    if s1 == "[HH]":  # RDKit keeps two canonical spellings of hydrogen gas apart; they are one molecule
        return "[H][H]"
    if "@" not in s1 and "/" not in s1 and "\\" not in s1:
        return s1
    if s1 in _canon_cache:
        return _canon_cache[s1]
    m2 = Chem.MolFromSmiles(s1)
    s2 = Chem.MolToSmiles(m2) if m2 is not None else s1
    if len(_canon_cache) < 200000:
        _canon_cache[s1] = s2
    return s2


def frags_mol(mol):
    """Multiset of canonical SMILES of connected components, maps cleared
    through the API; stereo, isotopes, charges kept."""
    m = demap_mol(mol)
    out = Counter()
    for f in Chem.GetMolFrags(m, asMols=True, sanitizeFrags=False):
        out[_canon(f)] += 1
    return out


def frags(side):
    if side == "":
        return Counter()
    m = parse(side)
    if m is None:
        return None
    return frags_mol(m)


def rfrags(rsmi):
    sp = split_rsmi(rsmi)
    if sp is None:
        return None
    a, b = frags(sp[0]), frags(sp[1])
    if a is None or b is None:
        return None
    return a, b


def demap(smiles):
    m = parse(smiles)
    if m is None:
        return None
    return Chem.MolToSmiles(demap_mol(m))


def contains(big, small):
    """multiset inclusion small <= big"""
    return all(big.get(k, 0) >= v for k, v in small.items())


def msub(big, small):
    d = Counter(big)
    d.subtract(small)
    return Counter({k: v for k, v in d.items() if v})


def has_radical(mol):
    return any(a.GetNumRadicalElectrons() for a in mol.GetAtoms())


def has_dummy(mol):
    return any(a.GetAtomicNum() == 0 for a in mol.GetAtoms())


def in_domain_smiles(smiles):
    """valid, closed-shell, no dummy atoms"""
    m = parse(smiles)
    if m is None or m.GetNumAtoms() == 0:
        return False
    return not has_radical(m) and not has_dummy(m)


def in_domain_rsmi(rsmi):
    sp = split_rsmi(rsmi)
    if sp is None:
        return False
    return all(in_domain_smiles(s) for s in sp)


def carbon_count(smiles):
    m = parse(smiles)
    if m is None:
        return None
    return sum(1 for a in m.GetAtoms() if a.GetAtomicNum() == 6)


def self_test():
    """The composition oracle by two RDKit routes; a harness bug must not be
    able to masquerade as a finding."""
    probes = [
        "CCO", "[Na+].[Cl-]", "c1ccccc1", "[NH4+]", "C[N+](C)(C)C.[OH-]",
        "[2H]O[2H]", "[U]", "[Th+4]", "O=[Mn](=O)(=O)[O-].[K+]", "[H][H]",
        "C[C@H](N)C(=O)O", "[13CH4]", "[PH5]", "OO", "[O-][n+]1ccccc1",
    ]
    n = 0
    for s in probes:
        m = parse(s)
        assert m is not None, s
        a, b = comp_mol(m), comp_mol_addhs(m)
        assert a == b, (s, a, b)
        n += 1
    assert comp("CCO") == (Counter({"C": 2, "H": 6, "O": 1}), 0)
    assert comp("[NH4+]") == (Counter({"N": 1, "H": 4}), 1)
    assert comp("[U]")[0] == Counter({"U": 1})
    assert balanced("CCO>>C=C.O") is True
    assert balanced("CCO>>C=C") is False
    assert balanced("CCO") is None
    assert frags("CC.O.CC") == Counter({"CC": 2, "O": 1})
    assert demap("[CH3:1][OH:2]") == "CO"
    return n


def loose_signature(mol):
    """per connected component: the graph of (element, isotope, total H count) with every bond reduced to
    'connected', plus the component's net charge.  RDKit writes some hypervalent species charge-separated
    depending on how the hydrogens were spelled (O=[IH] parses to [O-][IH+], O=I does not); both have
    the same loose signature.  Used only as a second opinion after the strict comparison failed."""
    out = Counter()
    m = demap_mol(mol)
    for f in Chem.GetMolFrags(m, asMols=True, sanitizeFrags=False):
        q = sum(a.GetFormalCharge() for a in f.GetAtoms())
        rw = Chem.RWMol()
        for a in f.GetAtoms():
            na = Chem.Atom(a.GetAtomicNum())
            na.SetIsotope(a.GetIsotope() * 100 + 0)
            na.SetNoImplicit(True)
            na.SetAtomMapNum(a.GetTotalNumHs() + 1)  # carry the H count as an invariant label
            rw.AddAtom(na)
        for b in f.GetBonds():
            rw.AddBond(b.GetBeginAtomIdx(), b.GetEndAtomIdx(), Chem.BondType.SINGLE)
        out[(Chem.MolToSmiles(rw.GetMol()), q)] += 1
    return out
