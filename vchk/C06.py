"""C06 - a reaction's result does not depend on its batch context (co-batched
reactions, order, batch size, worker count, repetition); stats are additive
over batches and independent of the partition."""
import time

from vchk import common, rowlib
from vmon import oracle, pipeline
from vgen import corpus
from vgen import reactions as G

RULE = ("sets of 12-24 fast reactions mixing all outcome kinds (input-balanced, rule-based, post-processed, MCS, "
        "declined, no-common-substructure, duplicates) ; reference = each reaction alone (n_jobs=1); groupings: whole "
        "set, permutations, partitions into batch sizes {1,2,3,5,n}, n_jobs {1,2,4[,8,16]}, repeated runs in the same "
        "process; plus contiguous corpus blocks processed one by one in dataset order, in reverse order by a fresh "
        "interpreter and a second time in the same process (processing history); compared per reaction: (reaction, solved, solved_by, confidence, rules, issue); stats of a batched "
        "run vs key-wise sum of its batches and vs the unbatched run; distinct non-trivial = distinct (reaction, "
        "grouping) with more than one row in the batch")
ASSUMPTIONS = ["only reactions whose stand-alone run takes < 0.6 s are used; rows showing a timeout text in either run "
               "are excluded and counted (wall-clock taint), a run with > 20 % tainted rows is inconclusive",
               "loky workers are separate processes; in-process state carried between calls is part of what is tested"]
TIMEOUT = {"quick": 1500, "thorough": 3400}
SLOW = 0.9
COLS = ("reaction", "solved", "solved_by", "confidence", "rules", "issue")
NOMATCH = ["[Na+].[Cl-]>>O", "CCl>>N", "CC(C)C=CC(C)C.O=O>>", "CS>>[Na+]"]
KEYS = ("reaction_cnt", "balanced_cnt", "rb_applied", "rb_solved", "mcs_applied", "mcs_solved", "confident_cnt")


def plan(tier, seed):
    q = tier == "quick"
    n = 10 if q else 40
    shards = [{"salt": i, "size": 14 if q else 20, "njobs": [1, 2, 4] if (q or i % 4) else [1, 8, 16],
               "groupings": 8 if q else 14} for i in range(n)]
    # history shards: a contiguous block of the corpus (similar reactions are neighbours in dataset order)
    # processed one by one in this process, and in reverse order by a fresh interpreter
    rng = common.rng(seed, "C06h")
    rows = corpus.validation_rows()
    groups = {}
    for r in rows:
        groups.setdefault(r["datasets"], []).append(r)
    blocks = []
    size = 36 if q else 120
    for name in sorted(groups):
        g = groups[name]
        if q:
            starts = [rng.randrange(0, max(1, len(g) - size))]
        else:
            starts = list(range(0, len(g), size))
        for st in starts:
            blocks.append([r["reaction"] for r in g[st:st + size]])
    rng.shuffle(blocks)
    for blk in blocks[: (3 if q else len(blocks))]:
        shards.append({"history": blk})
    # reagent-cluster blocks: reactions that consume the same reactant molecule (same leaving fragment, different
    # substrates and completion paths) are processed next to each other, so that anything keyed by a molecule and
    # carried from one reaction to the next (memo tables, shared parsed molecules) is hit by a *different* reaction
    clusters = reagent_clusters(rows)
    keys = sorted(clusters)
    rng.shuffle(keys)
    if q:
        br = [k for k in keys if "[" in k][:14]
        keys = br + [k for k in keys if k not in br][:13]
    picked = []
    for k in keys:
        ids = clusters[k]
        cap = 4 if q else 8
        picked.append([rows_by_id[i] for i in (rng.sample(ids, cap) if len(ids) > cap else ids)])
    rng.shuffle(picked)
    blk = []
    for grp in picked:
        blk.extend(grp)
        if len(blk) >= size:
            shards.append({"history": blk, "kind": "reagent_cluster"})
            blk = []
    if blk:
        shards.append({"history": blk, "kind": "reagent_cluster"})
    return shards


rows_by_id = {}


def reagent_clusters(rows):
    """canonical consumed reactant molecule -> ids of the corpus reactions that consume it (2..n reactions)"""
    idx = {}
    for r in rows:
        rows_by_id[r["id"]] = r["reaction"]
        try:
            left, right = r["reaction"].split(">>")
            fl, fp = oracle.frags(left), oracle.frags(right)
        except Exception:
            continue
        for m in set(fl):
            if m not in fp:
                idx.setdefault(m, []).append(r["id"])
    return {m: v for m, v in idx.items() if len(v) >= 2}


def view(r):
    return {k: r.get(k) for k in COLS}


def tainted(r):
    return rowlib.tainted(r)


def one_by_one(inputs):
    b, _ = rowlib.balancer(0, 1, trace=False)
    out = []
    for rx in inputs:
        t0 = time.time()
        rows, _, err = pipeline.run(b, [rx])
        row = rows[0] if (rows and len(rows) == 1) else {"issue": "run failed: %s" % err}
        row["_dt"] = time.time() - t0
        out.append(row)
    return out


def history(block, res):
    """same reactions, two different processing histories: in this (warm) process in dataset order,
    and in a fresh interpreter in reverse order; a row must not depend on what was processed before"""
    import json
    import os
    import subprocess
    import sys
    import tempfile
    busy = rowlib.machine_busy()
    fwd = one_by_one(block)
    tmp = tempfile.mkdtemp(prefix="verif_c06h_")
    try:
        fin, fout = os.path.join(tmp, "in.json"), os.path.join(tmp, "out.json")
        with open(fin, "w") as f:
            json.dump(block[::-1], f)
        p = subprocess.run([common.PY, "-m", "vchk.C06", fin, fout], env=common.worker_env(), cwd=tmp,
                           capture_output=True, text=True, timeout=1500)
        if p.returncode != 0 or not os.path.exists(fout):
            res.incon("fresh interpreter for the reverse pass failed: %s" % p.stderr[-300:])
            return
        with open(fout) as f:
            rev = json.load(f)[::-1]
    finally:
        import shutil
        shutil.rmtree(tmp, ignore_errors=True)
    again = one_by_one(block)  # third history: after everything else was seen by this process
    busy = busy or rowlib.machine_busy()
    res.count("history_blocks")
    for rx, a, b_, c in zip(block, fwd, rev, again):
        if tainted(a) or tainted(b_) or tainted(c):
            res.count("rows_tainted_by_timeouts")
            continue
        if max(a.get("_dt", 0), b_.get("_dt", 0), c.get("_dt", 0)) > SLOW:
            # an inner RDKit search may have run into its 1 s budget in one history only
            res.count("rows_excluded_slow(timing)")
            continue
        res.ev()
        res.count("history_rows_compared")
        res.case(["history", rx])
        for name, other in (("fresh_process_reverse_order", b_), ("same_process_second_pass", c)):
            if view(a) != view(other) and busy and "mcs-based" in (a.get("solved_by"), other.get("solved_by")):
                res.count("mcs_row_differences_not_judged(busy machine)")
                continue
            if view(a) != view(other):
                res.viol("row_depends_on_processing_history", case={"reaction": rx}, other_history=name,
                         differs_in=[k for k in COLS if a.get(k) != other.get(k)],
                         first=view(a), other=view(other), block=block)
                break


def work(shard, res, tier, seed):
    if "history" in shard:
        history(shard["history"], res)
        res.count("history_blocks:%s" % shard.get("kind", "dataset_order"))
        return
    if "replay" in shard and "block" in shard["replay"]:
        history(shard["replay"]["block"], res)
        return
    if "replay" in shard:
        v = shard["replay"]
        b, _ = rowlib.balancer(0, 1, trace=False)
        refs = []
        for rx in v["set"]:
            out, _, _ = pipeline.run(b, [rx])
            refs.append(out[0] if out else None)
        g = v["grouping"]
        run_grouping(v["set"], refs, g["perm"], g["bs"], g["n_jobs"], res, g.get("repeat", 1))
        return
    rng = common.rng(seed, "C06w", shard["salt"])
    b, _ = rowlib.balancer(0, 1, trace=False)
    # --- choose the set: fast reactions of all kinds, by stand-alone runs (the reference)
    rows = corpus.stratified_sample(rng, 70)
    cands = [r["reaction"] for r in rows] + [rx for _, rx in G.deletions(rng, 6)] + \
        [rx for _, rx in G.redox_family(rng, 6)] + [rx for _, rx in G.two_sided_oxygen(rng, 3)] + \
        [rx for _, rx in G.ionic_balanced(rng, 3)] + rng.sample(NOMATCH, 2)
    rng.shuffle(cands)
    # always present: a double oxidation, single oxidations / a reduction that use reagent templates
    cands = ["OCCCCO>>O=CCCC=O", "CCCCO>>CCCC=O", "CC(O)CC>>CC(=O)CC", "CCC(C)=O>>CCC(C)O"] + cands
    chosen, refs, kinds = [], [], {}
    for rx in cands:
        if len(chosen) >= shard["size"] - 2:
            break
        if not oracle.in_domain_rsmi(rx) and rx not in NOMATCH:
            continue
        t0 = time.process_time()  # CPU time: the selection must not depend on machine load
        out, _, err = pipeline.run(b, [rx])
        dt = time.process_time() - t0
        if err or not out or len(out) != 1 or dt > 0.6 or tainted(out[0]):
            res.count("candidates_too_slow_or_failed")
            continue
        kind = out[0].get("solved_by") if out[0].get("solved") else "declined"
        if kinds.get(kind, 0) >= max(3, shard["size"] // 3) + (3 if kind == "rule-based" else 0):
            continue
        kinds[kind] = kinds.get(kind, 0) + 1
        chosen.append(rx)
        refs.append(out[0])
    if len(chosen) < 6:
        res.incon("could not assemble a set")
        return
    dup = rng.sample(range(len(chosen)), 2)  # duplicates of the same reaction in one batch ...
    mcs_idx = [i for i, r in enumerate(refs) if r.get("solved_by") == "mcs-based"]
    if mcs_idx:
        dup[0] = rng.choice(mcs_idx)  # ... one of them a reaction that needs the MCS stage
    for k in dup:
        chosen.append(chosen[k])
        refs.append(refs[k])
    for k, v in kinds.items():
        res.count("set_members:%s" % k, v)
    n = len(chosen)
    # --- groupings
    ident = list(range(n))
    groupings = [(ident, None, 1, 1), (ident, None, 1, 2)]
    for bs in (1, 2, 3, 5):
        p = ident[:]
        rng.shuffle(p)
        groupings.append((p, bs, 1, 1))
    for nj in shard["njobs"][1:]:
        p = ident[:]
        rng.shuffle(p)
        groupings.append((p, rng.choice([None, 3, 5]), nj, 1))
    while len(groupings) < shard["groupings"]:
        p = ident[:]
        rng.shuffle(p)
        groupings.append((p, rng.choice([None, 1, 2, 3, 5, n]), 1, 1))
    for perm, bs, nj, rep in groupings[: shard["groupings"]]:
        run_grouping(chosen, refs, perm, bs, nj, res, rep)
    if len(res.samples) < 2:
        res.sample({"set": chosen[:4], "kinds": kinds, "groupings": [(g[1], g[2]) for g in groupings]})


def run_grouping(chosen, refs, perm, bs, nj, res, repeat=1):
    b, tr = rowlib.balancer(0, nj, trace=(nj == 1))
    inputs = [chosen[i] for i in perm]
    gdesc = {"perm": perm, "bs": bs, "n_jobs": nj, "repeat": repeat}
    busy_before = rowlib.machine_busy()
    for _ in range(repeat):
        rows, stats, err = pipeline.run(b, inputs, batch_size=bs, tracer=tr)
    res.count("groupings_run")
    res.add("groupings", "bs=%s,n_jobs=%s" % (bs, nj))
    w = dict(set=chosen, grouping=gdesc)
    if err or rows is None or len(rows) != len(inputs):
        res.viol("grouped_run_lost_rows", error=err, n_out=None if rows is None else len(rows), **w)
        return
    ntaint = 0
    busy = busy_before or rowlib.machine_busy()
    if busy:
        res.count("groupings_run_on_a_busy_machine")
    for pos, i in enumerate(perm):
        ref, got = refs[i], rows[pos]
        if tainted(ref) or tainted(got):
            ntaint += 1
            continue
        if busy and (ref.get("solved_by") == "mcs-based" or got.get("solved_by") == "mcs-based") \
                and view(ref) != view(got):
            # an inner search may have run into its wall-clock budget without saying so (busy machine)
            res.count("mcs_row_differences_not_judged(busy machine)")
            ntaint += 1
            continue
        res.ev()
        res.count("rows_compared")
        res.case([chosen[i], perm, bs, nj])
        if view(ref) != view(got):
            diff = [k for k in COLS if ref.get(k) != got.get(k)]
            res.viol("row_depends_on_batch_context", case={"reaction": chosen[i]}, differs_in=diff,
                     alone=view(ref), grouped=view(got), position=pos, **w)
    res.count("rows_tainted_by_timeouts", ntaint)
    if ntaint > 0.2 * len(perm):
        res.incon("more than 20% of a run tainted by wall-clock timeouts")
    # --- stats: additivity over batches and independence of the partition
    if tr is not None and tr.batches and all(bt["stats"] is not None for bt in tr.batches):
        res.ev()
        res.count("stats_additivity_evaluated")
        tot = {}
        for bt in tr.batches:
            for k, v in bt["stats"].items():
                tot[k] = tot.get(k, 0) + v
        if {k: tot.get(k) for k in KEYS} != {k: stats.get(k) for k in KEYS} and ntaint == 0:
            res.viol("stats_not_sum_of_batches", stats=stats, summed=tot, **w)
    elif bs is not None and nj == 1 and ntaint == 0:
        # no per-batch statistics from the tracer (the private per-batch method is not wrapped): additivity is
        # decided at the client boundary instead - each batch of the same partition is run as its own call
        tot = {}
        ok = True
        for i in range(0, len(inputs), bs):
            _, st, e2 = pipeline.run(b, inputs[i:i + bs])
            if e2:
                ok = False
                break
            for k, v in st.items():
                tot[k] = tot.get(k, 0) + v
        if ok:
            res.ev()
            res.count("stats_additivity_evaluated")
            res.count("stats_additivity_by_separate_calls")
            if {k: tot.get(k) for k in KEYS} != {k: stats.get(k) for k in KEYS}:
                res.viol("stats_not_sum_of_batches", stats=stats, summed=tot, **w)
    if ntaint == 0:
        # partition independence: derive what the counters must be from the stand-alone rows
        res.ev()
        res.count("stats_partition_evaluated")
        by = [refs[i].get("solved_by") for i in perm]
        want = {"reaction_cnt": len(perm),
                "balanced_cnt": sum(1 for x in by if x == "input-balanced"),
                "confident_cnt": sum(1 for i in perm if refs[i].get("solved_by") == "mcs-based"
                                     and refs[i].get("solved")),
                "mcs_applied": sum(1 for x in by if x not in ("input-balanced", "rule-based"))}
        got = {k: stats.get(k) for k in want}
        if got != want:
            res.viol("stats_depend_on_partition", stats=stats, expected_from_standalone_rows=want, **w)


def conclude_args(res, tier, seed):
    return {"need": {"rows_compared": 600, "history_rows_compared": 100, "groupings_run": 60, "stats_additivity_evaluated": 30,
                     "set_members:mcs-based": 8, "set_members:rule-based": 8, "set_members:declined": 4},
            "min_cases": 500}


if __name__ == "__main__":  # reverse pass in a fresh interpreter: python -m vchk.C06 in.json out.json
    import json
    import sys
    import warnings
    warnings.filterwarnings("ignore")
    with open(sys.argv[1]) as f:
        blk = json.load(f)
    rows = one_by_one(blk)
    with open(sys.argv[2], "w") as f:
        json.dump(rows, f, default=str)
