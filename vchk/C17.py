"""C17 - benchmark comparison ignores molecule order and SMILES spelling:
normalize_smiles idempotent and invariant, wc_similarity == 1 for variants,
symmetric and within [0,1]."""
import itertools

from rdkit import Chem

from vchk import common
from vmon import oracle
from vgen import corpus, molgen

RULE = ("real normalize_smiles / wc_similarity (pathway, ecfp, ecfp_inv) on stereo-free corpus reactions: all "
        "permutations of the molecules of a side (<= 4 molecules) or 20 random ones, RDKit re-spellings with "
        "random atom maps, isomer pairs whose sort keys (atom-pattern count, character sum) collide (mined from "
        "the corpus + constructed families), expected-vs-wrong pairs shipped with the validation set and random "
        "pairs for symmetry/range; the real `python -m synrbl benchmark` command on files whose expected/result columns "
        "are variants of one another (all three methods, default threshold 1: every row must be counted correct); distinct non-trivial = distinct reactions with >= 2 molecules on a side")
ASSUMPTIONS = ["domain: valid stereo-free reactions (no '@', '/', '\\\\' in the text) of closed-shell molecules",
               "a variant = same fragment multisets on both sides by the independent oracle"]
TIMEOUT = {"quick": 600, "thorough": 2400}
METHODS = ("pathway", "ecfp", "ecfp_inv")


def stereo_free(s):
    return not any(c in s for c in "@/\\")


def plan(tier, seed):
    q = tier == "quick"
    rng = common.rng(seed, "C17")
    rows = [r for r in corpus.validation_rows() if stereo_free(r["reaction"])
            and (not r["expected"] or stereo_free(r["expected"]))]
    pick = rng.sample(rows, 300) if q else rows
    shards = [{"ids": [r["id"] for r in c]} for c in common.stripe(pick, 10 if q else 30)]
    shards.append({"isomers": 150 if q else 2000})
    shards.append({"pairs": 300 if q else 1500})
    # small inorganic species side by side (several spellings of hydrogen gas, bare metals and ions, hydrides ...)
    shards.append({"small_species": 120 if q else 1200})
    # the consumer the property is named after: `python -m synrbl benchmark` counting rows as correct
    for k in range(1 if q else 6):
        shards.append({"benchmark": 90 if q else 150, "salt": k})
    return shards


def variants(rx, rng, nperm=20):
    a, b = rx.split(">>")
    out = []
    sides = []
    for side in (a, b):
        mols = side.split(".")
        if len(mols) <= 4:
            perms = list(itertools.permutations(mols))
        else:
            perms = []
            for _ in range(nperm):
                p = mols[:]
                rng.shuffle(p)
                perms.append(tuple(p))
        sides.append(perms)
    combos = [(x, y) for x in sides[0] for y in sides[1]]
    if len(combos) > 24:
        combos = rng.sample(combos, 24)
    for x, y in combos:
        out.append(("perm", ".".join(x) + ">>" + ".".join(y)))
    # re-spellings
    for _ in range(3):
        parts = []
        ok = True
        for side in (a, b):
            ms = []
            for m in side.split("."):
                mol = oracle.parse(m)
                if mol is None:
                    ok = False
                    break
                sp = molgen.respell(mol, rng, k=1, maps=rng.random() < 0.6)
                if not sp or "." in sp[0] != ("." in m):
                    ok = False
                    break
                ms.append(sp[0])
            if not ok:
                break
            rng.shuffle(ms)
            parts.append(".".join(ms))
        if ok:
            out.append(("respell", ">>".join(parts)))
    return out


def check_reaction(rx, rng, res, norm, sim):
    if not (stereo_free(rx) and oracle.in_domain_rsmi(rx)):
        res.count("out_of_domain")
        return
    base_f = oracle.rfrags(rx)
    try:
        n0 = norm(rx)
        n1 = norm(n0)
    except Exception as e:  # noqa
        res.viol("normalize_raised", case={"reaction": rx}, error=repr(e)[:200])
        return
    res.ev()
    res.count("idempotence_evaluated")
    if n0 != n1:
        res.viol("normalize_not_idempotent", case={"reaction": rx}, once=n0, twice=n1)
    if oracle.rfrags(n0) != base_f:
        res.viol("normalize_changed_molecules", case={"reaction": rx}, normal_form=n0)
    multi = any(len(s.split(".")) >= 2 for s in rx.split(">>"))
    if multi:
        res.case(rx)
    for kind, v in variants(rx, rng):
        if not stereo_free(v) or oracle.rfrags(v) != base_f:
            res.count("variant_discarded")
            continue
        res.ev()
        res.count("variants_evaluated:" + kind)
        try:
            nv = norm(v)
        except Exception as e:  # noqa
            res.viol("normalize_raised", case={"reaction": v}, error=repr(e)[:200])
            continue
        if nv != n0:
            res.viol("variants_normalise_differently", case={"reaction": rx, "variant": v},
                     variant_kind=kind, normal_form=n0, variant_normal_form=nv)
            continue
        m = METHODS[res.evaluations % 3]
        try:
            s = sim(rx, v, method=m)
        except Exception as e:  # noqa
            res.viol("similarity_raised", case={"reaction": rx, "variant": v}, method=m, error=repr(e)[:200])
            continue
        if float(s) != 1.0:
            res.viol("variant_similarity_not_one", case={"reaction": rx, "variant": v}, method=m,
                     similarity=float(s))


def check_pair(a, b, res, sim):
    if not (stereo_free(a) and stereo_free(b) and oracle.in_domain_rsmi(a) and oracle.in_domain_rsmi(b)):
        res.count("out_of_domain")
        return
    for m in METHODS:
        res.ev()
        res.count("pairs_evaluated")
        try:
            x, y = float(sim(a, b, method=m)), float(sim(b, a, method=m))
        except Exception as e:  # noqa
            res.viol("similarity_raised", case={"a": a, "b": b}, method=m, error=repr(e)[:200])
            continue
        if not (0.0 <= x <= 1.0 and 0.0 <= y <= 1.0):
            res.viol("similarity_out_of_range", case={"a": a, "b": b}, method=m, values=[x, y])
        elif abs(x - y) > 1e-12:
            res.viol("similarity_not_symmetric", case={"a": a, "b": b}, method=m, values=[x, y])
    res.case(["pair", a, b])


def colliding_isomers(rng, n):
    """pairs of different molecules whose canonical SMILES have the same
    (atom-pattern count, character sum): mined + constructed"""
    from collections import defaultdict
    import re
    pat = re.compile(r"(B|C|N|O|P|S|F|Cl|Br|I|c|n|o)")
    groups = defaultdict(set)
    pool = [m for m in corpus.molecules() if stereo_free(m)]
    for m in rng.sample(pool, min(len(pool), 6000)):
        c = oracle.demap(m)
        if c is None or "." in c or not oracle.in_domain_smiles(c):
            continue
        groups[(len(pat.findall(c)), sum(ord(ch) for ch in c))].add(c)
    fam = ["CCCO", "CCOC", "CC(C)O", "CCCN", "CCNC", "CC(C)N", "CCCCO", "CCCOC", "CCOCC", "CC(C)CO",
           "CC(O)CC", "COC(C)C", "NCCO", "OCCN", "CNCO", "c1ccc(O)cc1C", "Cc1ccccc1O", "Cc1cccc(O)c1",
           "CCC(=O)C", "CC(=O)CC", "CCCC=O", "ClCCBr", "BrCCCl"]
    for c in fam:
        c = oracle.demap(c)
        groups[(len(pat.findall(c)), sum(ord(ch) for ch in c))].add(c)
    pairs = []
    for k, g in groups.items():
        g = sorted(g)
        if len(g) >= 2:
            for x, y in itertools.combinations(g[:6], 2):
                pairs.append((x, y))
    rng.shuffle(pairs)
    return pairs[:n]


HETERO = ["c1ccsc1", "c1cscn1", "Cc1nccs1", "c1ccc2sccc2c1", "c1cc[se]c1", "c1ccpcc1", "c1ccoc1", "c1cc[nH]c1",
          "c1cnc2sccc2c1", "Cc1ccc(C)s1", "c1csc(-c2cccs2)c1", "O=C(O)c1cccs1", "c1ccc2scnc2c1", "c1cnsc1",
          "c1ccc2[se]ccc2c1", "n1ccsc1N", "c1ccnnc1", "c1ncncn1", "c1cc2ccccc2o1", "Cn1ccnc1"]


SMALL = ["[H][H]", "[HH]", "[H+]", "[H-]", "[Li+]", "[LiH]", "[Mg+2]", "[Al+3]", "[Ag+]", "[Na+]", "[K+]", "[Zn+2]", "[Cu+2]",
         "[OH-]", "O", "N", "Cl", "Br", "[Cl-]", "[Br-]", "[I-]", "[F-]", "OO", "O=O", "N#N", "[C-]#[O+]", "O=C=O", "S",
         "[NH4+]", "[BH4-]", "[AlH4-]", "[Li]C", "[Mg](Br)C", "B", "P", "[SiH4]", "C", "CC", "C=C", "C#C", "[2H][2H]",
         "[H]Cl", "[H]O[H]", "[Na+].[H-]", "[Li+].[AlH4-]", "[Ca+2]", "[Fe+3]", "[Pd]", "[Pt]", "[Hg]", "[Au]", "[Mg]", "[Zn]"]


def small_species_reactions(rng, n):
    sp = [x for x in SMALL if oracle.in_domain_smiles(x)]
    org = [("CC=O", "CCO"), ("CC(C)=O", "CC(C)O"), ("C=CC", "CCC"), ("N#CC", "NCC"), ("CC(=O)OC", "CCO.CO")]
    out = []
    for _ in range(n):
        a, b = rng.choice(org)
        k = rng.randint(2, 4)
        left = [a] + rng.sample(sp, k)
        right = [b] + rng.sample(sp, rng.randint(1, 3))
        rng.shuffle(left)
        rng.shuffle(right)
        out.append("%s>>%s" % (".".join(left), ".".join(right)))
    return out


def benchmark_rows(rng, n):
    """(expected, result) pairs that are variants of one another (same fragment multisets by the oracle):
    corpus reactions + small reactions over S / Se / P / O / N hetero-aromatics in aromatic and Kekule spelling"""
    base = [r["reaction"] for r in rng.sample(corpus.validation_rows(), 3 * n)]
    for _ in range(n // 2):
        a, b = rng.sample(HETERO, 2)
        base.append("%s.%s.CC(=O)Cl>>%s.CC(=O)O.%s" % (a, b, b, a))
    rng.shuffle(base)
    out = []
    for rx in base:
        if len(out) >= n:
            break
        rx = oracle.demap(rx) if ":" in rx else rx
        if rx is None or not (stereo_free(rx) and oracle.in_domain_rsmi(rx)):
            continue
        f = oracle.rfrags(rx)
        vs = [v for _, v in variants(rx, rng) if stereo_free(v) and oracle.rfrags(v) == f]
        # Kekule form of every molecule, molecules reversed
        try:
            kek = ">>".join(".".join(Chem.MolToSmiles(Chem.MolFromSmiles(m), kekuleSmiles=True)
                                     for m in side.split(".")[::-1]) for side in rx.split(">>"))
            if oracle.rfrags(kek) == f:
                vs.append(kek)
        except Exception:
            pass
        if not vs:
            continue
        v = rng.choice(vs[-4:]) if rng.random() < 0.6 else rng.choice(vs)
        out.append((rx, v) if rng.random() < 0.5 else (v, rx))
    return out


def benchmark_cli(pairs, method, tmp, tag):
    """writes the files a rebalancing run would have written, runs the real CLI, returns its counts"""
    import csv
    import json
    import os
    import subprocess
    src = os.path.join(tmp, "bench_%s.csv" % tag)
    out = os.path.join(tmp, "bench_%s.json" % tag)
    n_rb = n_mcs = 0
    with open(src, "w", newline="") as f:
        w = csv.writer(f)
        w.writerow(["reaction", "expected_reaction", "solved", "solved_by", "confidence"])
        for i, (exp, act) in enumerate(pairs):
            by = "rule-based" if i % 2 == 0 else "mcs-based"
            n_rb += by == "rule-based"
            n_mcs += by == "mcs-based"
            w.writerow([act, exp, True, by, "" if by == "rule-based" else 0.9])
    with open(src + ".stats", "w") as f:
        json.dump({"reaction_cnt": len(pairs), "balanced_cnt": 0, "rb_solved": n_rb, "rb_applied": n_rb,
                   "mcs_applied": n_mcs, "mcs_solved": n_mcs, "confident_cnt": n_mcs}, f)
    p = subprocess.run([common.PY, "-m", "synrbl", "benchmark", src, "-o", out, "--similarity-method", method],
                       cwd=tmp, capture_output=True, text=True, timeout=900, env=common.worker_env())
    if p.returncode != 0 or not os.path.exists(out):
        return None, p.stderr[-600:], (n_rb, n_mcs)
    with open(out) as f:
        st = json.load(f)
    return st, None, (n_rb, n_mcs)


def benchmark_part(n, rng, res):
    import shutil
    import tempfile
    pairs = benchmark_rows(rng, n)
    tmp = tempfile.mkdtemp(prefix="verif_c17b_")
    try:
        for method in METHODS:
            st, err, (n_rb, n_mcs) = benchmark_cli(pairs, method, tmp, method)
            res.ev()
            res.count("benchmark_cli_runs")
            res.count("benchmark_rows", len(pairs))
            if st is None:
                res.viol("benchmark_cli_failed", method=method, stderr=err, case={"pairs": pairs[:3]})
                continue
            if st.get("total_correct") == len(pairs):
                continue
            # localise: one row at a time through the same command
            bad = []
            for k, pr in enumerate(pairs):
                s1, _, _ = benchmark_cli([pr], method, tmp, "one")
                if s1 is None or s1.get("total_correct") != 1:
                    bad.append(pr)
                if len(bad) >= 3:
                    break
            res.viol("benchmark_counts_variant_as_wrong", method=method, rows=len(pairs),
                     total_correct=st.get("total_correct"), case={"expected": bad[0][0], "result": bad[0][1]} if bad
                     else {"pairs": pairs[:3]}, more=bad[1:])
        for exp, act in pairs:
            res.case(["bench", exp, act])
        if pairs:
            res.sample({"benchmark_row": {"expected_reaction": pairs[0][0][:120], "reaction": pairs[0][1][:120]}})
    finally:
        shutil.rmtree(tmp, ignore_errors=True)


def work(shard, res, tier, seed):
    import warnings
    warnings.filterwarnings("ignore")
    from synrbl.SynUtils.chem_utils import normalize_smiles, wc_similarity
    rng = common.rng(seed, "C17w", str(shard)[:80])
    if "replay" in shard:
        c = shard["replay"].get("case", {})
        if "variant" in c:
            v = c["variant"]
            res.ev()
            n0, nv = normalize_smiles(c["reaction"]), normalize_smiles(v)
            if n0 != nv:
                res.viol("variants_normalise_differently", case=c, normal_form=n0, variant_normal_form=nv)
            for m in METHODS:
                s = float(wc_similarity(c["reaction"], v, method=m))
                if s != 1.0:
                    res.viol("variant_similarity_not_one", case=c, method=m, similarity=s)
        elif "expected" in c:
            import shutil
            import tempfile
            tmp = tempfile.mkdtemp(prefix="verif_c17b_")
            try:
                for m in METHODS:
                    res.ev()
                    st, err, _ = benchmark_cli([(c["expected"], c["result"])], m, tmp, "replay")
                    if st is None or st.get("total_correct") != 1:
                        res.viol("benchmark_counts_variant_as_wrong", method=m, case=c, rows=1,
                                 total_correct=None if st is None else st.get("total_correct"))
            finally:
                shutil.rmtree(tmp, ignore_errors=True)
        elif "reaction" in c:
            check_reaction(c["reaction"], rng, res, normalize_smiles, wc_similarity)
        elif "a" in c:
            check_pair(c["a"], c["b"], res, wc_similarity)
        return
    if "benchmark" in shard:
        benchmark_part(shard["benchmark"], rng, res)
    if "small_species" in shard:
        for rx in small_species_reactions(rng, shard["small_species"]):
            check_reaction(rx, rng, res, normalize_smiles, wc_similarity)
            res.count("small_species_reactions")
    if "ids" in shard:
        byid = {r["id"]: r for r in corpus.validation_rows()}
        for i in shard["ids"]:
            r = byid[i]
            check_reaction(r["reaction"], rng, res, normalize_smiles, wc_similarity)
            if r["expected"]:
                check_reaction(r["expected"], rng, res, normalize_smiles, wc_similarity)
        res.sample({"reaction": byid[shard["ids"][0]]["reaction"][:150],
                    "normal_form": normalize_smiles(byid[shard["ids"][0]]["reaction"])[:150]})
    if "isomers" in shard:
        pairs = colliding_isomers(rng, shard["isomers"])
        res.count("colliding_isomer_pairs", len(pairs))
        for x, y in pairs:
            third = rng.choice(["CC(=O)Cl", "O", "c1ccccc1Br", "CI"])
            for rx in ("%s.%s>>%s" % (x, y, third), "%s>>%s.%s.%s" % (third, x, third, y)):
                check_reaction(rx, rng, res, normalize_smiles, wc_similarity)
        if pairs:
            res.sample({"colliding_isomers": pairs[:4]})
    if "pairs" in shard:
        import ast
        import csv
        import os
        rows = []
        with open(os.path.join(corpus.REPO, "Data/Validation_set/validation_set.csv")) as f:
            for r in csv.DictReader(f):
                if r["expected_reaction"] and r["wrong_reactions"] not in ("", "[]"):
                    rows.append(r)
        rng.shuffle(rows)
        n = 0
        for r in rows:
            if n >= shard["pairs"]:
                break
            try:
                wrong = ast.literal_eval(r["wrong_reactions"])
            except Exception:
                continue
            for w in wrong[:1]:
                check_pair(r["expected_reaction"], w, res, wc_similarity)
                n += 1
        val = corpus.validation_rows()
        for _ in range(shard["pairs"] // 3):
            a, b = rng.sample(val, 2)
            check_pair(a["reaction"], b["reaction"], res, wc_similarity)


def conclude_args(res, tier, seed):
    return {"need": {"idempotence_evaluated": 200, "variants_evaluated:perm": 500,
                     "variants_evaluated:respell": 200, "pairs_evaluated": 150,
                     "colliding_isomer_pairs": 20, "benchmark_cli_runs": 3, "benchmark_rows": 150, "small_species_reactions": 50}, "min_cases": 100}
