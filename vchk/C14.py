"""C14 - composition-determined outcomes (input-balanced, rule-based) ignore
how the SMILES is written and how the molecules are ordered."""
from rdkit import Chem

from vchk import common, rowlib
from vmon import oracle
from vgen import corpus, molgen
from vgen import reactions as G

RULE = ("base reactions (corpus + deletion + redox + ionic generators) whose outcome is input-balanced or rule-based; "
        "variants: random atom order, kekulised, canonical/aromatic, explicit-H / explicit-bond spellings, random "
        "atom-map assignments, molecules permuted within a side (all seeded); base and variants go through the real "
        "Balancer in one batch (also whole families of reactions over the same molecules with other multiplicities together "
        "with re-spellings of every member); compared: (solved, solved_by) of the returned rows and the multiset of added "
        "fragments per side taken from the snapshot before reagent templates are applied; distinct non-trivial = "
        "distinct (base, variant) whose text differs from the base")
ASSUMPTIONS = ["a variant is accepted only if the independent oracle finds the same fragment multisets on both sides",
               "additions are compared before post-processing ('apart from the choice of redox reagent template')"]
TIMEOUT = {"quick": 900, "thorough": 3000}


def variants(rx, rng, k):
    a, b = rx.split(">>")
    out = []
    for _ in range(k):
        sides = []
        ok = True
        for side in (a, b):
            ms = []
            for m in side.split("."):
                mol = oracle.parse(m)
                if mol is None:
                    ok = False
                    break
                sp = molgen.respell(mol, rng, k=1, maps=rng.random() < 0.5)
                if not sp:
                    ok = False
                    break
                ms.append(sp[0])
            if not ok:
                break
            if rng.random() < 0.7:
                rng.shuffle(ms)
            sides.append(".".join(ms))
        if ok:
            v = ">>".join(sides)
            if v != rx and oracle.rfrags(v) == oracle.rfrags(rx):
                out.append(v)
    return list(dict.fromkeys(out))


def ambiguous_bases(rng, n):
    """reactions whose imbalance has several equally ranked completions (found with the real matcher - this
    only selects the workload): balanced corpus reaction + a sum of small rule compounds on one side"""
    import copy
    from synrbl.SynRuleImputer.synthetic_rule_matcher import SyntheticRuleMatcher
    db = G.rule_compounds()
    small = [e for e in db if oracle.in_domain_smiles(e["smiles"]) and "C" not in e["Composition"]
             and sum(v for k, v in e["Composition"].items() if k != "Q") <= 5]
    base = G.balanced_corpus()
    out, tries = [], 0
    while len(out) < n and tries < 40 * n:
        tries += 1
        picks = rng.sample(small, rng.randint(2, 3))
        mult = [rng.randint(1, 2) for _ in picks]
        vec = {}
        for e, m in zip(picks, mult):
            for k, v in e["Composition"].items():
                vec[k] = vec.get(k, 0) + v * m
        vec = {k: v for k, v in vec.items() if v or k == "Q"}
        try:
            with common.alarm(5):
                sols = SyntheticRuleMatcher(copy.deepcopy(db), dict(vec), select="all",
                                            ranking="ion_priority").match()
        except common.Watchdog:
            continue
        if len(sols) < 2:
            continue
        tag, rx = rng.choice(base)
        sp = list(oracle.split_rsmi(rx))
        side = rng.randrange(2)
        extra = [e["smiles"] for e, m in zip(picks, mult) for _ in range(m)]
        parts = sp[side].split(".") + extra
        rng.shuffle(parts)
        sp[side] = ".".join(parts)
        out.append(("ambig|%s|%d" % (tag, len(sols)), ">>".join(sp)))
    return out


def plan(tier, seed):
    q = tier == "quick"
    rng = common.rng(seed, "C14")
    rows = corpus.stratified_sample(rng, 600 if q else 5032)
    pairs = [("val_%d" % r["id"], r["reaction"]) for r in rows]
    pairs += G.deletions(rng, 80 if q else 1200) + G.redox_family(rng, 34 if q else 300)
    pairs += G.ionic_balanced(rng, 20 if q else 200) + G.marker_collisions(rng, 30 if q else 300)
    pairs += G.h2_on_reactant_side(rng, 40 if q else 400)
    pairs += G.multi_additions(rng, 120 if q else 1500)
    pairs += G.completion_prefix_collisions(rng, 40 if q else 400)
    pairs += G.with_spectator_copy(rng, rng.sample(pairs, 150 if q else 1500))
    pairs += [(t, rx) for t, rx in G.balanced_corpus()[: (60 if q else 1500)]]
    rng.shuffle(pairs)
    shards = [{"bases": c, "k": 6 if q else 10} for c in common.stripe(pairs, 16 if q else 48)]
    fams = G.self_reaction_families(rng, 32 if q else 300)
    for i, sh in enumerate(shards):
        sh["ambiguous"] = 8 if q else 30
        sh["families"] = fams[i::len(shards)]
    return shards


def additions(out, pos, input_reaction):
    """fragments added before post-processing (snapshot after the MCS validation pass)"""
    n = 0
    for b in out["batches"]:
        k = len(b["inputs"])
        if pos < n + k:
            st = dict(b["stages"])
            snap = st.get("mcs_check")
            if snap is None:
                return None
            for rid, rx, solved, by, issue in snap:
                if rid == str(pos - n):
                    fi, fo = oracle.rfrags(input_reaction), oracle.rfrags(rx)
                    if fi is None or fo is None:
                        return None
                    return [sorted(oracle.msub(fo[s], fi[s]).items()) for s in (0, 1)]
            return None
        n += k
    return None


def work(shard, res, tier, seed):
    rng = common.rng(seed, "C14w", str(shard.get("bases", ""))[:60])
    if "replay" in shard and shard["replay"].get("batch"):
        v = shard["replay"]
        inputs = v["batch"]
        case = {"inputs": inputs, "cfg": {"batch_size": None, "threshold": 0, "n_jobs": 1}}
        out = rowlib.run_case(case)
        if rowlib.aligned(case, out):
            b = out["rows"][inputs.index(v["case"]["base"])]
            g = out["rows"][inputs.index(v["case"]["variant"])]
            res.ev()
            bv, gv = (b.get("solved"), b.get("solved_by")), (g.get("solved"), g.get("solved_by"))
            if bv != gv:
                res.viol("verdict_depends_on_spelling", base=list(bv), variant=list(gv), case=v["case"],
                         base_row=b, variant_row=g, batch=inputs)
        return
    if "replay" in shard:
        v = shard["replay"]
        shard = {"bases": [("replay", v["case"]["base"])], "k": 12, "forced": [v["case"].get("variant")]}
    # 1) find the bases whose outcome is composition-determined
    extra = ambiguous_bases(rng, shard.get("ambiguous", 0)) if shard.get("ambiguous") else []
    res.count("ambiguous_completion_bases", len(extra))
    bases = [(t, rx) for t, rx in list(shard["bases"]) + extra if oracle.in_domain_rsmi(rx)]
    cfg = {"batch_size": None, "threshold": 0, "n_jobs": 1}
    groups, others = [], []
    for i in range(0, len(bases), 25):
        chunk = bases[i:i + 25]
        case = {"inputs": [rx for _, rx in chunk], "cfg": cfg}
        try:
            with common.alarm(240):
                out = rowlib.run_case(case)
        except common.Watchdog:
            res.count("watchdog(inconclusive)")
            continue
        if not rowlib.aligned(case, out):
            res.count("cases_not_aligned(C05)")
            continue
        for pos, ((t, rx), row) in enumerate(zip(chunk, out["rows"])):
            if row.get("solved") and row.get("solved_by") in ("input-balanced", "rule-based"):
                groups.append((rx, row, additions(out, pos, row["input_reaction"])))
                res.count("bases:%s" % row["solved_by"])
            elif pos % 3 == 0:
                # the property speaks about the reaction, not about this spelling of it: if another
                # spelling has a composition-determined outcome, this one must have it too
                others.append(rx)
    # 1b) bases with another outcome: do two re-spellings get a composition-determined one?
    for rx in others:
        vs = variants(rx, rng, 2)
        if not vs:
            continue
        case = {"inputs": [rx] + vs, "cfg": cfg}
        try:
            with common.alarm(120):
                out = rowlib.run_case(case)
        except common.Watchdog:
            res.count("watchdog(inconclusive)")
            continue
        if not rowlib.aligned(case, out):
            continue
        rows = out["rows"]
        if any(rowlib.tainted(r) for r in rows):
            continue
        base_v = (rows[0].get("solved"), rows[0].get("solved_by"))
        for pos in range(1, len(rows)):
            res.ev()
            res.count("variants_of_other_outcomes_evaluated")
            got_v = (rows[pos].get("solved"), rows[pos].get("solved_by"))
            if got_v[0] and got_v[1] in ("input-balanced", "rule-based") and got_v != base_v:
                res.viol("verdict_depends_on_spelling", base=list(base_v), variant=list(got_v),
                         case={"base": rx, "variant": vs[pos - 1]}, base_row=rows[0], variant_row=rows[pos])
    # 2) run base + variants together, compare
    for rx, brow, badd in groups:
        vs = variants(rx, rng, shard["k"])
        vs += [f for f in shard.get("forced", []) if f]
        if not vs:
            continue
        case = {"inputs": [rx] + vs, "cfg": cfg}
        try:
            with common.alarm(120):
                out = rowlib.run_case(case)
        except common.Watchdog:
            res.count("watchdog(inconclusive)")
            continue
        if not rowlib.aligned(case, out):
            res.count("cases_not_aligned(C05)")
            continue
        rows = out["rows"]
        base_v = (rows[0].get("solved"), rows[0].get("solved_by"))
        base_add = additions(out, 0, rows[0]["input_reaction"])
        for pos in range(1, len(rows)):
            res.ev()
            res.count("variants_evaluated")
            res.case([rx, vs[pos - 1]])
            got_v = (rows[pos].get("solved"), rows[pos].get("solved_by"))
            got_add = additions(out, pos, rows[pos]["input_reaction"])
            w = dict(case={"base": rx, "variant": vs[pos - 1]}, base_row=rows[0], variant_row=rows[pos])
            if got_v != base_v:
                res.viol("verdict_depends_on_spelling", base=list(base_v), variant=list(got_v), **w)
            elif base_add is None or got_add is None:
                res.count("additions_not_observable")
            elif got_add != base_add:
                res.viol("added_molecules_depend_on_spelling", base_added=base_add, variant_added=got_add, **w)
        if len(res.samples) < 2:
            res.sample({"base": rx, "variants": vs[:3], "verdict": list(base_v), "added": base_add})
    # 3) families
    for fam in shard.get("families", []):
        family_part(fam, rng, res, cfg)


def family_part(fam, rng, res, cfg):
    """a family of reactions over the same molecule strings with different multiplicities is run in one batch
    together with re-spellings of each member; every re-spelling must get the verdict and additions of its member"""
    members = [rx for _, rx in fam if oracle.in_domain_rsmi(rx)]
    inputs, owner = list(members), [None] * len(members)
    for k, rx in enumerate(members):
        for v in variants(rx, rng, 2):
            inputs.append(v)
            owner.append(k)
    if len(inputs) == len(members):
        return
    case = {"inputs": inputs, "cfg": cfg}
    try:
        with common.alarm(240):
            out = rowlib.run_case(case)
    except common.Watchdog:
        res.count("watchdog(inconclusive)")
        return
    if not rowlib.aligned(case, out):
        res.count("cases_not_aligned(C05)")
        return
    rows = out["rows"]
    res.count("families_run")
    for pos, k in enumerate(owner):
        if k is None:
            continue
        b, g = rows[k], rows[pos]
        base_v, got_v = (b.get("solved"), b.get("solved_by")), (g.get("solved"), g.get("solved_by"))
        det = [v for v in (base_v, got_v) if v[0] and v[1] in ("input-balanced", "rule-based")]
        if not det or any(rowlib.tainted(r) for r in (b, g)):
            continue
        res.ev()
        res.count("family_variants_evaluated")
        res.case([members[k], inputs[pos]])
        w = dict(case={"base": members[k], "variant": inputs[pos]}, base_row=b, variant_row=g, batch=inputs)
        if got_v != base_v:
            res.viol("verdict_depends_on_spelling", base=list(base_v), variant=list(got_v), **w)
            continue
        a0, a1 = additions(out, k, b["input_reaction"]), additions(out, pos, g["input_reaction"])
        if a0 is not None and a1 is not None and a0 != a1:
            res.viol("added_molecules_depend_on_spelling", base_added=a0, variant_added=a1, **w)


def conclude_args(res, tier, seed):
    return {"need": {"variants_evaluated": 500, "bases:rule-based": 50, "bases:input-balanced": 30,
                     "ambiguous_completion_bases": 40, "family_variants_evaluated": 40},
            "min_cases": 300}
