"""Shared driver machinery: result accumulation, sharded execution in
subprocesses (never multiprocessing.Pool), three-valued verdicts, evidence
files, known findings keyed by mechanism, replay files."""
import hashlib
import json
import os
import random
import shutil
import signal
import subprocess
import sys
import tempfile
import time

ROOT = os.path.dirname(os.path.dirname(os.path.abspath(__file__)))
REPO = os.environ.get("VERIF_REPO", "/repo")
PY = os.environ.get("VERIF_PYTHON", "/venv/bin/python")
NPROC = int(os.environ.get("VERIF_JOBS", "16"))

LEVELS = {"C11": "fault_enumeration", "C12": "fault_enumeration"}


def level_of(pid):
    return LEVELS.get(pid, "exploration")


def h(obj):
    s = obj if isinstance(obj, str) else json.dumps(obj, sort_keys=True, default=str)
    return hashlib.sha1(s.encode()).hexdigest()[:14]


class Result:
    """What one shard observed.  Everything is JSON-serialisable."""

    MAX_SAMPLES = 6
    MAX_VIOL = 400

    def __init__(self):
        self.evaluations = 0
        self.cases = set()
        self.violations = []
        self.counters = {}
        self.samples = []
        self.inconclusive = []
        self.sets = {}
        self.enumerated = 0  # distinct-by-construction cases (exhaustive enumerations), not hashed

    def case_count(self, n=1):
        self.enumerated += n

    def ev(self, n=1):
        self.evaluations += n

    def case(self, key):
        self.cases.add(h(key))

    def count(self, name, n=1):
        self.counters[name] = self.counters.get(name, 0) + n

    def add(self, setname, value):
        self.sets.setdefault(setname, set()).add(value)

    def sample(self, obj):
        if len(self.samples) < self.MAX_SAMPLES:
            self.samples.append(obj)

    def viol(self, kind, **witness):
        self.count("violations_raw")
        if len(self.violations) < self.MAX_VIOL:
            self.violations.append({"kind": kind, **witness})

    def incon(self, reason):
        self.inconclusive.append(reason)

    def dump(self):
        return {
            "evaluations": self.evaluations,
            "cases": sorted(self.cases),
            "violations": self.violations,
            "counters": self.counters,
            "samples": self.samples,
            "inconclusive": self.inconclusive,
            "sets": {k: sorted(v, key=str) for k, v in self.sets.items()},
            "enumerated": self.enumerated,
        }

    def merge(self, d):
        self.evaluations += d["evaluations"]
        self.cases.update(d["cases"])
        self.violations.extend(d["violations"])
        for k, v in d["counters"].items():
            self.counters[k] = self.counters.get(k, 0) + v
        for s in d["samples"]:
            if len(self.samples) < 12:
                self.samples.append(s)
        self.inconclusive.extend(d["inconclusive"])
        self.enumerated += d.get("enumerated", 0)
        for k, v in d.get("sets", {}).items():
            self.sets.setdefault(k, set()).update(
                tuple(x) if isinstance(x, list) else x for x in v
            )


class Watchdog(Exception):
    pass


class alarm:
    """Generous per-call wall-clock watchdog; firing is *inconclusive*."""

    def __init__(self, seconds):
        self.seconds = seconds

    def _fire(self, *_):
        raise Watchdog()

    def __enter__(self):
        self.old = signal.signal(signal.SIGALRM, self._fire)
        signal.setitimer(signal.ITIMER_REAL, self.seconds)

    def __exit__(self, *exc):
        signal.setitimer(signal.ITIMER_REAL, 0)
        signal.signal(signal.SIGALRM, self.old)
        return False


def worker_env():
    env = dict(os.environ)
    pp = [ROOT, os.path.join(ROOT, ".deps")]
    if os.path.abspath(REPO) != "/repo":
        pp.insert(0, REPO)
    if env.get("PYTHONPATH"):
        pp.append(env["PYTHONPATH"])
    env["PYTHONPATH"] = os.pathsep.join(pp)
    env["PYTHONHASHSEED"] = "0"
    env["SYNRBL_VERIF"] = "1"
    env["VERIF_REPO"] = REPO
    env.setdefault("JOBLIB_MULTIPROCESSING", "1")
    env["PYTHONWARNINGS"] = "ignore"
    env["OMP_NUM_THREADS"] = "1"
    return env


def _killpg(p):
    try:
        os.killpg(p.pid, signal.SIGKILL)
    except Exception:
        try:
            p.kill()
        except Exception:
            pass


def run_shards(pid, shards, tier, seed, timeout=900, nproc=None):
    """Run every shard in its own python process (up to nproc at a time).
    Returns (Result, lost) where lost lists shards that died / timed out."""
    nproc = nproc or NPROC
    tmp = tempfile.mkdtemp(prefix="verif_%s_" % pid)
    merged = Result()
    lost = []
    pending = list(enumerate(shards))
    running = {}
    env = worker_env()
    try:
        while pending or running:
            while pending and len(running) < nproc:
                # shards marked {"exclusive": True} (they load the machine on purpose) only start when
                # nothing else is running, and nothing else starts while they run
                nxt_excl = bool(isinstance(pending[0][1], dict) and pending[0][1].get("exclusive"))
                run_excl = any(isinstance(r[4], dict) and r[4].get("exclusive") for r in running.values())
                if running and nxt_excl != run_excl:
                    break
                i, sh = pending.pop(0)
                sf = os.path.join(tmp, "s%d.json" % i)
                of = os.path.join(tmp, "o%d.json" % i)
                lf = os.path.join(tmp, "l%d.log" % i)
                with open(sf, "w") as f:
                    json.dump({"tier": tier, "seed": seed, "shard": sh, "index": i}, f)
                p = subprocess.Popen(
                    [PY, "-m", "vchk.worker", pid, sf, of],
                    stdout=open(lf, "w"),
                    stderr=subprocess.STDOUT,
                    env=env,
                    cwd=tmp,
                    start_new_session=True,  # own process group: helpers it spawns can be swept with killpg
                )
                running[i] = (p, of, lf, time.time(), sh)
            time.sleep(0.05)
            for i in list(running):
                p, of, lf, t0, sh = running[i]
                rc = p.poll()
                if rc is None:
                    if time.time() - t0 > timeout:
                        _killpg(p)
                        p.wait()
                        lost.append({"shard": i, "why": "watchdog %ds" % timeout})
                        del running[i]
                    continue
                del running[i]
                _killpg(p)  # anything the finished worker left behind in its group
                if rc == 0 and os.path.exists(of):
                    with open(of) as f:
                        merged.merge(json.load(f))
                else:
                    tail = ""
                    try:
                        with open(lf, errors="replace") as f:
                            tail = f.read()[-1500:]
                    except OSError:
                        pass
                    lost.append({"shard": i, "why": "exit %s" % rc, "log": tail})
    finally:
        for p, *_ in running.values():
            _killpg(p)
        shutil.rmtree(tmp, ignore_errors=True)
    return merged, lost


# ---------------------------------------------------------------- findings


def load_known(pid):
    path = os.path.join(ROOT, "known_findings.json")
    if not os.path.exists(path):
        return []
    with open(path) as f:
        data = json.load(f)
    return [e for e in data.get("findings", []) if e.get("property") == pid]


def classify(pid, violations):
    """Split violations into (known: {entry_id: [v]}, new: [v]).  A finding is
    keyed by mechanism: its classifier inspects the witness."""
    from vchk import classifiers

    entries = [e for e in load_known(pid) if e.get("status") == "known"]
    known = {e["id"]: [] for e in entries}
    new = []
    for v in violations:
        for e in entries:
            fn = getattr(classifiers, e["classifier"])
            try:
                ok = fn(v)
            except Exception:
                ok = False
            if ok:
                known[e["id"]].append(v)
                break
        else:
            new.append(v)
    return entries, known, new


def conclude(pid, tier, seed, res, lost, t0, rule, assumptions, extra=None,
             min_cases=2, need=None, max_lost_frac=0.25, nshards=1, exhaustive=None, write_evidence=True):
    """Write evidence, replay files, print verdict lines, return exit code."""
    entries, known, new = classify(pid, res.violations)
    reasons = list(res.inconclusive)
    if lost and len(lost) > max_lost_frac * max(nshards, 1):
        reasons.append("%d of %d shards lost" % (len(lost), nshards))
    if res.evaluations == 0:
        reasons.append("no oracle evaluation happened")
    ncases = len(res.cases) + res.enumerated
    if ncases < min_cases:
        reasons.append("only %d distinct non-trivial cases" % ncases)
    for name, minimum in (need or {}).items():
        if res.counters.get(name, 0) < minimum:
            reasons.append("monitor '%s' reached %d times (< %d)"
                           % (name, res.counters.get(name, 0), minimum))

    # distinct new violations -> replay files
    rdir = os.path.join(ROOT, "replays", pid)
    seen = {}
    for v in new:
        key = h({k: v.get(k) for k in v if k not in ("detail",)})
        seen.setdefault(key, v)
    paths = []
    if seen:
        os.makedirs(rdir, exist_ok=True)
    for key, v in list(seen.items())[:25]:
        path = os.path.join(rdir, key + ".json")
        with open(path, "w") as f:
            json.dump({"property": pid, "tier": tier, "seed": seed, "violation": v},
                      f, indent=1, default=str)
        paths.append(path)

    cov = {
        "evaluations": int(res.evaluations),
        "distinct_nontrivial": ncases,
        "distinct_nontrivial_hashed": len(res.cases),
        "distinct_nontrivial_enumerated": res.enumerated,
        "rule": rule,
        "samples": res.samples[:12] or ["<none>"],
        "counters": dict(sorted(res.counters.items())),
        "sets": {k: sorted(v, key=str)[:60] for k, v in res.sets.items()},
        "set_sizes": {k: len(v) for k, v in res.sets.items()},
        "shards": nshards,
        "shards_lost": lost[:5],
        "known_findings_observed": {k: len(v) for k, v in known.items()},
        "new_violations": len(seen),
        "inconclusive_reasons": reasons,
    }
    if exhaustive is not None:
        cov["exhaustive"] = bool(exhaustive)
    if extra:
        cov.update(extra)
    verdict = "violated" if seen else ("inconclusive" if reasons else "held")
    cov["verdict"] = verdict
    evidence = {
        "property_id": pid,
        "tier": tier,
        "seed": int(seed),
        "level": level_of(pid),
        "coverage": cov,
        "assumptions": assumptions,
        "wall_s": round(time.time() - t0, 2),
        "violations": len(seen),
    }
    if write_evidence:  # a --replay run re-executes one case and must not replace the check's evidence
        os.makedirs(os.path.join(ROOT, "evidence"), exist_ok=True)
        with open(os.path.join(ROOT, "evidence", pid + ".json"), "w") as f:
            json.dump(evidence, f, indent=1, default=str)

    print("%s tier=%s seed=%s evaluations=%d distinct_nontrivial=%d wall=%.0fs"
          % (pid, tier, seed, res.evaluations, ncases, time.time() - t0))
    for k in sorted(res.counters):
        print("  counter %-40s %d" % (k, res.counters[k]))
    for k, v in res.sets.items():
        vs = sorted(v, key=str)
        print("  seen %-20s (%d) %s" % (k, len(vs), ", ".join(map(str, vs[:12]))
                                        + (" ..." if len(vs) > 12 else "")))
    for e in entries:
        vs = known[e["id"]]
        eg = ""
        if vs:
            eg = " e.g. " + json.dumps(vs[0].get("case", vs[0]), default=str)[:200]
        print("KNOWN-FINDING: property=%s %s [%s] observed=%d%s"
              % (pid, e["what"], e["id"], len(vs), eg))
    for l in lost[:5]:
        print("  lost shard %s: %s %s" % (l["shard"], l["why"],
                                          (l.get("log") or "")[-400:].replace("\n", " | ")))
    kinds = {}
    for v in new:
        kinds[v.get("kind")] = kinds.get(v.get("kind"), 0) + 1
    for k, n in sorted(kinds.items()):
        print("  new-violation kind %-45s %d" % (k, n))
    if seen:
        for p in paths:
            print("VIOLATION property=%s replay=%s" % (pid, p))
        for key, v in list(seen.items())[:8]:
            print("  witness: " + json.dumps(v, default=str)[:600])
        return 1
    if reasons:
        print("INCONCLUSIVE property=%s reason=%s" % (pid, "; ".join(reasons)))
        return 2
    print("HELD property=%s on everything explored" % pid)
    return 0


def rng(seed, *salt):
    return random.Random(h([seed, *salt]))


def chunks(seq, n):
    seq = list(seq)
    k = max(1, (len(seq) + n - 1) // n)
    return [seq[i:i + k] for i in range(0, len(seq), k)]


def stripe(seq, n):
    seq = list(seq)
    out = [seq[i::n] for i in range(n)]
    return [o for o in out if o]
