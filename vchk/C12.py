"""C12 - result caching is transparent across runs, configurations and crashes."""
import contextlib
import io
import itertools
import json
import os
import shutil
import subprocess
import sys
import tempfile

from vchk import common, rowlib
from vmon import pipeline

RULE = ("histories of caching runs of the real Balancer over one cache directory (batches B1, B2, B1+B2, permuted, "
        "overlapping; batch size {None,1,2,n}; threshold {0,.5,.9}; reaction column {reaction, rxn}; same reactions with other / non-ASCII values in a requested "
        "pass-through column; result rows fed back as input): every ordered "
        "pair over the run alphabet + random length-4/5 histories; each completed run is compared (rows and stats) "
        "with the same run with caching disabled; crash points: for real cache entries every on-disk state (absent, "
        "empty, truncated prefixes, complete, garbage) followed by a run, and real kills of a caching run in a "
        "subprocess at the k-th write into the cache directory, and at the k-th statement executed inside the cache "
        "manager's own code (sys.monitoring LINE events; independent of the file layout), followed by a normal run; distinct non-trivial = "
        "distinct (history | crash state) whose last run hit a cache file left by an earlier run or state; entry addressing: "
        "the cache manager's own key function (hooked on the real class, payload shape captured from a real caching run) "
        "is driven with 4e5 (quick) / 2e6 (thorough) distinct two-reaction batches from the corpus; two batches sharing "
        "an address are run for real one after the other over one cache directory and the second is judged against its "
        "uncached run (only that end-to-end disagreement is a violation)")
ASSUMPTIONS = ["the cache-free run of the same configuration is the reference (memoised per configuration)",
               "a kill is simulated with os._exit inside the write call (after writing half of that chunk and flushing)"]
TIMEOUT = {"quick": 1500, "thorough": 3400}
COLS = ("input_reaction", "reaction", "solved", "solved_by", "confidence", "rules", "issue")
B1 = ["CC(=O)O.OCC>>CC(=O)OCC.O", "CC(=O)O.OCC>>CC(=O)OCC", "CC(=O)OCC>>CCO", "CC(=O)OC>>CC(=O)O"]
B2 = ["CCBr.[OH-]>>CCO", "CS(=O)(=O)OCC>>CCO", "CCO>>CCOCC", "c1ccccc1C(=O)OC>>OC"]
RUNS = [
    {"name": "B1", "inputs": B1, "bs": None, "t": 0, "col": "reaction"},
    {"name": "B1@.5", "inputs": B1, "bs": None, "t": 0.5, "col": "reaction"},
    {"name": "B1@.9", "inputs": B1, "bs": None, "t": 0.9, "col": "reaction"},
    {"name": "B1/2", "inputs": B1, "bs": 2, "t": 0, "col": "reaction"},
    {"name": "B1/2@.5", "inputs": B1, "bs": 2, "t": 0.5, "col": "reaction"},
    {"name": "B2", "inputs": B2, "bs": None, "t": 0, "col": "reaction"},
    {"name": "B1+B2/4", "inputs": B1 + B2, "bs": 4, "t": 0, "col": "reaction"},
    {"name": "B1+B2/4@.5", "inputs": B1 + B2, "bs": 4, "t": 0.5, "col": "reaction"},
    {"name": "B1perm", "inputs": [B1[2], B1[0], B1[3], B1[1]], "bs": None, "t": 0, "col": "reaction"},
    {"name": "B1rxn", "inputs": B1, "bs": None, "t": 0, "col": "rxn"},
    {"name": "B1/1@.9", "inputs": B1, "bs": 1, "t": 0.9, "col": "reaction"},
    {"name": "overlap/2", "inputs": B1[2:] + B2[:2], "bs": 2, "t": 0.5, "col": "reaction"},
    {"name": "B1-nostats", "inputs": B1, "bs": None, "t": 0, "col": "reaction", "no_stats": True},
    {"name": "B1/2-nostats", "inputs": B1, "bs": 2, "t": 0, "col": "reaction", "no_stats": True},
    {"name": "B1+cols", "inputs": B1, "bs": None, "t": 0, "col": "reaction",
     "extra_cols": ["carbon_balance_check", "unbalance_col"]},
    {"name": "B1-aam", "inputs": ["[CH3:1][C:2](=[O:3])[O:4][CH3:5]>>[CH3:1][C:2](=[O:3])[OH:4]"] + B1[:2], "bs": None,
     "t": 0, "col": "reaction", "remove_aam": False},
    {"name": "B1+aam", "inputs": ["[CH3:1][C:2](=[O:3])[O:4][CH3:5]>>[CH3:1][C:2](=[O:3])[OH:4]"] + B1[:2], "bs": None,
     "t": 0, "col": "reaction"},
    # thresholds 0.0002 below / above the confidence the batch's last MCS row really gets (they agree to three decimals)
    {"name": "B1@c-", "inputs": B1, "bs": None, "t": ["near", 0, -0.0002], "col": "reaction"},
    {"name": "B1@c+", "inputs": B1, "bs": None, "t": ["near", 0, 0.0002], "col": "reaction"},
    # the same reactions with other values in a pass-through column that is part of the requested output
    {"name": "B1+noteA", "inputs": B1, "bs": None, "t": 0, "col": "reaction", "extra_cols": ["note"],
     "notes": ["a1", "a2", "a3", "a4"]},
    {"name": "B1+noteB", "inputs": B1, "bs": None, "t": 0, "col": "reaction", "extra_cols": ["note"],
     "notes": ["b1", "b2", "b3", "b4"]},
    # non-ASCII text in the rows (and therefore in the cache entry)
    {"name": "B1+note\u03a9", "inputs": B1, "bs": 2, "t": 0, "col": "reaction", "extra_cols": ["note"],
     "notes": ["\u03b1-\u043a\u0438\u0441\u043b\u043e\u0442\u0430", "\u00e9ster \u2192 acide", "\u4e59\u9178\u4e59\u916f", "\u03a9\U0001f9ea"]},
    # result rows of an earlier (uncached) run of B1 fed back as input rows
    {"name": "B1-refed", "inputs": B1, "bs": None, "t": 0, "col": "reaction", "refeed_of": 0},
]
QUICK_RUNS = [0, 1, 3, 4, 6, 8, 9, 12, 13, 14, 15, 16, 17, 18, 19, 20, 21, 22]

_bal = {}
_ref = {}
_cols = {}
HITS = {"n": 0}


def balancer(col):
    if col not in _bal:
        b = pipeline.make_balancer(reaction_col=col, n_jobs=1)
        _bal[col] = b
    return _bal[col]


def install_hit_counter():
    """kept for the call sites; hits are derived in do_run (batches of the run minus pipeline invocations, the
    latter counted at the public input validator) and do not depend on how the cache is implemented"""
    return


def _count_pipeline_calls(b):
    if getattr(b, "_verif_counting", False):
        return
    orig = b.input_validator.check

    def check(*a, **k):
        PIPE["n"] += 1
        return orig(*a, **k)

    b.input_validator.check = check
    b._verif_counting = True


PIPE = {"n": 0}


_near = {}


def resolve_t(run):
    """a threshold given as ['near', i, d] = (largest confidence in the uncached threshold-0 run of RUNS[i]) + d"""
    t = run["t"]
    if not isinstance(t, (list, tuple)):
        return t
    key = (t[1], t[2])
    if key not in _near:
        rows = reference(RUNS[t[1]])[0] or []
        cs = [r.get("confidence") for r in rows if isinstance(r.get("confidence"), float)]
        _near[key] = min(1.0, max(0.0, (max(cs) if cs else 0.5) + t[2]))
    return _near[key]


def do_run(run, cache_dir):
    """-> (rows view, stats, error)"""
    b = balancer(run["col"])
    _count_pipeline_calls(b)
    pipe_before = PIPE["n"]
    b.cache = cache_dir is not None
    b.cache_dir = cache_dir
    b.confidence_threshold = resolve_t(run)
    base_cols = _cols.setdefault(run["col"], list(b.columns))
    b.columns = base_cols + list(run.get("extra_cols", []))
    b.remove_aam = run.get("remove_aam", True)
    data = [{run["col"]: rx} for rx in run["inputs"]]
    if run.get("notes"):
        for row, note in zip(data, run["notes"]):
            row["note"] = note
    if run.get("refeed_of") is not None:
        src = reference(RUNS[run["refeed_of"]])[0]
        data = [dict(r) for r in src]
    stats = None if run.get("no_stats") else {}
    buf = io.StringIO()
    try:
        with contextlib.redirect_stderr(buf), contextlib.redirect_stdout(buf):
            rows = b.rebalance(data, output_dict=True, stats=stats, batch_size=run["bs"])
        cols = [c if c != "reaction" else run["col"] for c in COLS] + list(run.get("extra_cols", []))
        return [{c: _nn(r.get(c)) for c in cols} for r in rows], stats, None
    except Exception as e:  # noqa
        return None, stats, "%s: %s" % (type(e).__name__, str(e)[:160])
    finally:
        if cache_dir is not None:
            n = len(run["inputs"])
            bs = run["bs"] or n
            batches = (n + bs - 1) // bs
            HITS["n"] += max(0, batches - (PIPE["n"] - pipe_before))  # batches answered without the pipeline
        b.cache = False
        b.confidence_threshold = 0
        b.columns = base_cols
        b.remove_aam = True


def _nn(x):
    """NaN (pandas' missing value in re-fed rows) compares unequal to itself: normalise to None"""
    return None if isinstance(x, float) and x != x else x


def reference(run):
    key = run["name"]
    if key not in _ref:
        _ref[key] = do_run(run, None)
    return _ref[key]


def judge(run, got, res, w):
    rows, stats, err = got
    ref_rows, ref_stats, ref_err = reference(run)
    res.ev()
    if err is not None:
        res.viol("caching_run_raised", error=err, failing_run=run["name"], **w)
        return False
    if rows != ref_rows:
        diff = [i for i, (a, b_) in enumerate(zip(rows, ref_rows)) if a != b_] if len(rows) == len(ref_rows) else None
        res.viol("cached_rows_differ_from_uncached_run", failing_run=run["name"], differing_rows=diff,
                 cached=rows if diff is None else [rows[i] for i in diff[:2]],
                 uncached=None if diff is None else [ref_rows[i] for i in diff[:2]], **w)
        return False
    if stats != ref_stats:
        res.viol("cached_stats_differ_from_uncached_run", failing_run=run["name"], cached=stats,
                 uncached=ref_stats, **w)
        return False
    return True


def history(idx, res):
    install_hit_counter()
    d = tempfile.mkdtemp(prefix="verif_c12_")
    names = [RUNS[i]["name"] for i in idx]
    try:
        hit_last = 0
        for k, i in enumerate(idx):
            before = HITS["n"]
            got = do_run(RUNS[i], d)
            hit_last = HITS["n"] - before
            ok = judge(RUNS[i], got, res, dict(case={"history": names, "step": k}))
            if not ok:
                break
        res.count("histories")
        if hit_last:
            res.case(["history", names])
            res.count("histories_ending_in_cache_hit")
    finally:
        shutil.rmtree(d, ignore_errors=True)


def keyspace(n, res, seed):
    """Entry addressing under stress: the cache manager's own key function (hooked on the real class, shape of the
    payload captured from a real caching run) is driven with n distinct (configuration, batch) payloads built from
    pairs of corpus reactions; two distinct batches that get one address are then run for real, one after the other
    over one cache directory, and the second run is judged against its uncached run like every other history.  Only
    that end-to-end disagreement is a violation; when the key function is not there to hook the stress is waived."""
    import copy
    from vgen import corpus
    try:
        from synrbl.SynUtils import batching
        CM = batching.CacheManager
        orig = CM.get_hash_key
    except Exception:  # noqa
        res.count("keyspace:unavailable")
        return
    seen_payloads = []

    def spy(self, data):
        seen_payloads.append(copy.deepcopy(data))
        return orig(self, data)

    def observed(inputs, cache_dir, name):
        del seen_payloads[:]
        CM.get_hash_key = spy
        try:
            run = {"name": name, "inputs": inputs, "bs": None, "t": 0, "col": "reaction"}
            return run, do_run(run, cache_dir), list(seen_payloads)
        finally:
            CM.get_hash_key = orig

    d = tempfile.mkdtemp(prefix="verif_c12k_")
    try:
        probe = ["CC(=O)OC>>CC(=O)O", "CCBr.[OH-]>>CCO"]
        _, _, pl = observed(probe, d, "keyspace:probe")
        tmpl = pl[0] if pl else None
        ok = (isinstance(tmpl, dict) and isinstance(tmpl.get("data"), list) and len(tmpl["data"]) == 2
              and all(isinstance(r, dict) and r.get("reaction") == x for r, x in zip(tmpl["data"], probe)))
        if not ok:
            res.count("keyspace:unavailable")
            return
        pool = sorted({r["reaction"] for r in corpus.validation_rows()} | {rx for _, rx in corpus.raw_reactions() if rx})
        rng = common.rng(seed, "C12-keyspace")
        N = len(pool)
        cm = CM(cache_dir=os.path.join(d, "k"))
        keys = {}
        collisions = []
        picks = rng.sample(range(N * N), min(n, N * N))
        for k in picks:
            payload = {kk: vv for kk, vv in tmpl.items() if kk != "data"}
            payload["data"] = [dict(tmpl["data"][0], reaction=pool[k // N]), dict(tmpl["data"][1], reaction=pool[k % N])]
            key = orig(cm, payload)
            other = keys.setdefault(key, k)
            if other != k:
                collisions.append((other, k))
        res.count("keyspace_payloads", len(picks))
        res.count("keyspace_distinct_addresses", len(keys))
        res.ev()
        for a, b in collisions[:3]:
            res.count("keyspace_address_shared_by_two_batches")
            e = tempfile.mkdtemp(prefix="verif_c12k_")
            try:
                ia, ib = [pool[a // N], pool[a % N]], [pool[b // N], pool[b % N]]
                observed(ia, e, "keyspace:%d" % a)
                run_b, got, pl_b = observed(ib, e, "keyspace:%d" % b)
                res.count("keyspace_confirmation_runs")
                judge(run_b, got, res, dict(case={"keyspace": {"first": ia, "then": ib}}))
            finally:
                shutil.rmtree(e, ignore_errors=True)
        res.case(["keyspace", len(picks)])
    finally:
        CM.get_hash_key = orig
        shutil.rmtree(d, ignore_errors=True)


def crash_states(run_i, stride, res):
    """every on-disk state of the entries a run leaves behind, then the same run again"""
    install_hit_counter()
    run = RUNS[run_i]
    d = tempfile.mkdtemp(prefix="verif_c12c_")
    try:
        do_run(run, d)
        files = sorted(os.path.relpath(os.path.join(dp, f), d) for dp, _, fs in os.walk(d) for f in fs)
        blobs = {f: open(os.path.join(d, f), "rb").read() for f in files}
        res.count("cache_entries_seen", len(files))
        for f in files:
            full = blobs[f]
            cuts = sorted(set(list(range(0, len(full), stride)) + [1, 2, len(full) - 2, len(full) - 1, len(full)]))
            # ... and a cut inside / right before / right after every multi-byte character of the entry
            nonascii = [i for i, byte in enumerate(full) if byte >= 0x80]
            if nonascii:
                res.count("cuts_at_multibyte_characters", len(nonascii))
            cuts = sorted(set(cuts) | {i + d for i in nonascii for d in (0, 1)})
            states = [("truncated", full[:c]) for c in cuts if 0 <= c <= len(full)]
            states += [("garbage", b"\x00\xff" * 10), ("not_json", b"hello"), ("wrong_type", b"[1, 2]"),
                       ("wrong_keys", b'{"foo": 1}'), ("absent", None)]
            for kind, content in states:
                for g in files:  # restore the others
                    with open(os.path.join(d, g), "wb") as fh:
                        fh.write(blobs[g])
                p = os.path.join(d, f)
                if content is None:
                    os.remove(p)
                else:
                    with open(p, "wb") as fh:
                        fh.write(content)
                before = HITS["n"]
                got = do_run(run, d)
                desc = {"run": run["name"], "entry": files.index(f), "state": kind,
                        "bytes": None if content is None else len(content), "of": len(full)}
                judge(run, got, res, dict(case={"crash_state": desc}))
                res.count("crash_states")
                if HITS["n"] > before:
                    res.case(["state", desc])
        res.sample({"crash_states_of": run["name"], "entries": len(files), "entry_bytes": [len(b) for b in blobs.values()]})
    finally:
        shutil.rmtree(d, ignore_errors=True)


KILLER = r'''
import builtins, os, sys, json, warnings
warnings.filterwarnings("ignore")
cache_dir, k, spec = sys.argv[1], int(sys.argv[2]), json.loads(sys.argv[3])
import synrbl.SynUtils.batching as B
real_open = builtins.open
count = [0]
class W:
    def __init__(self, f): self.f = f
    def write(self, s):
        count[0] += 1
        if count[0] == k:
            self.f.write(s[: max(0, len(s) // 2)]); self.f.flush(); os._exit(77)
        return self.f.write(s)
    def __enter__(self): return self
    def __exit__(self, *a): self.f.close(); return False
    def __getattr__(self, n): return getattr(self.f, n)
def fake_open(path, mode="r", *a, **kw):
    f = real_open(path, mode, *a, **kw)
    if any(m in mode for m in "wax+") and os.path.abspath(str(path)).startswith(os.path.abspath(cache_dir)):
        return W(f)
    return f
B.open = fake_open
from synrbl import Balancer
b = Balancer(reaction_col=spec["col"], confidence_threshold=spec["t"], n_jobs=1, cache=True, cache_dir=cache_dir,
             batch_size=spec["bs"])
b.rebalance([{spec["col"]: r} for r in spec["inputs"]], output_dict=True, stats={})
print("WRITES", count[0])
'''


KILLER2 = r'''
import os, sys, json, types, warnings
warnings.filterwarnings("ignore")
cache_dir, k, spec = sys.argv[1], int(sys.argv[2]), json.loads(sys.argv[3])
import synrbl.SynUtils.batching as B
mon = sys.monitoring
TOOL = mon.DEBUGGER_ID
mon.use_tool_id(TOOL, "verif-kill")
codes = set()
def collect(code):
    codes.add(code)
    for c in code.co_consts:
        if isinstance(c, types.CodeType):
            collect(c)
cm = getattr(B, "CacheManager", None)
if cm is not None:
    for name, obj in vars(cm).items():
        fn = obj.__func__ if isinstance(obj, (staticmethod, classmethod)) else obj
        if isinstance(fn, types.FunctionType):
            collect(fn.__code__)
for name, obj in vars(B).items():
    if isinstance(obj, types.FunctionType) and obj.__module__ == B.__name__:
        collect(obj.__code__)
count = [0]
def on_line(code, line):
    count[0] += 1
    if count[0] == k:
        os._exit(77)   # the process dies before this statement runs; unflushed buffers are lost
mon.register_callback(TOOL, mon.events.LINE, on_line)
for c in codes:
    mon.set_local_events(TOOL, c, mon.events.LINE)
from synrbl import Balancer
b = Balancer(reaction_col=spec["col"], confidence_threshold=spec["t"], n_jobs=1, cache=True, cache_dir=cache_dir,
             batch_size=spec["bs"])
b.rebalance([{spec["col"]: r} for r in spec["inputs"]], output_dict=True, stats={})
print("WRITES", count[0])
'''


def run_child(cmd, cwd, timeout=600):
    """run a child that may die by os._exit while joblib helper processes still hold its pipes:
    output goes to a file, the child gets its own session and the whole group is killed afterwards"""
    import signal
    out = os.path.join(cwd, "child.out")
    with open(out, "w") as fo:
        p = subprocess.Popen(cmd, env=common.worker_env(), cwd=cwd, stdout=fo, stderr=subprocess.DEVNULL,
                             start_new_session=True)
        try:
            rc = p.wait(timeout=timeout)
        except subprocess.TimeoutExpired:
            rc = None
        try:
            os.killpg(p.pid, signal.SIGKILL)
        except OSError:
            pass
        if rc is None:
            p.wait()
    with open(out) as fo:
        return rc, fo.read()


def kill_run(run_i, ks, res, mode="write"):
    """mode 'write': the child dies inside the k-th write() on a file opened for writing below the cache directory
    (half of that chunk flushed); mode 'line': the child dies at the k-th statement executed inside the cache
    manager's own code (every statement boundary of the cache code is a crash point; works for any file layout)"""
    install_hit_counter()
    run = RUNS[run_i]
    tmp = tempfile.mkdtemp(prefix="verif_c12k_")
    script = os.path.join(tmp, "killer.py")
    with open(script, "w") as f:
        f.write(KILLER if mode == "write" else KILLER2)
    spec = json.dumps({k: run[k] for k in ("inputs", "bs", "t", "col")})
    try:
        # how many writes does a complete run make?
        d0 = os.path.join(tmp, "count")
        rc, out = run_child([common.PY, script, d0, "0", spec], tmp)
        total = 0
        for line in out.splitlines():
            if line.startswith("WRITES"):
                total = int(line.split()[1])
        res.count("%s_events_of_a_complete_run" % mode, total)
        if total == 0:
            # 'write': the cache does not write through a plain open() in its module (another implementation);
            # the statement-level kills and the on-disk state enumeration still apply
            res.count("kill_hook_not_reached:" + mode)
            return
        if ks == "all":
            ks = list(range(1, total + 1))
        else:
            rng = common.rng(run_i, "kill")
            ks = sorted(set([1, 2, total // 2, total - 1, total] + [rng.randint(1, total) for _ in range(ks)]))
        for k in ks:
            d = os.path.join(tmp, "k%d" % k)
            rc, out = run_child([common.PY, script, d, str(k), spec], tmp)
            if rc != 77:
                res.count("kill_not_reached")
                continue
            left = {os.path.relpath(os.path.join(dp, f), d): os.path.getsize(os.path.join(dp, f))
                    for dp, _, fs in os.walk(d) for f in fs} if os.path.isdir(d) else {}
            before = HITS["n"]
            got = do_run(run, d)
            desc = {"run": run["name"], "killed_at_%s" % mode: k, "of": total, "files_left": left, "mode": mode}
            judge(run, got, res, dict(case={"kill": desc}))
            res.count("real_kills")
            res.count("real_kills:" + mode)
            res.case(["kill", mode, run["name"], k])
            # and once more on the now repaired directory: must hit the cache and still be right
            got2 = do_run(run, d)
            judge(run, got2, res, dict(case={"kill": desc, "second_run_after_kill": True}))
            shutil.rmtree(d, ignore_errors=True)
        res.sample({"kill_points": ks[:10], "events_total": total, "mode": mode, "run": run["name"]})
    finally:
        shutil.rmtree(tmp, ignore_errors=True)


def plan(tier, seed):
    q = tier == "quick"
    rng = common.rng(seed, "C12")
    alphabet = QUICK_RUNS if q else list(range(len(RUNS)))
    hist = [list(p) for p in itertools.product(alphabet, repeat=2)]
    for _ in range(20 if q else 200):
        hist.append([rng.choice(alphabet) for _ in range(rng.choice([4, 5]))])
    shards = [{"histories": c} for c in common.stripe(hist, 8 if q else 30)]
    if q:
        shards += [{"keyspace": 400000}]
        shards += [{"crash": {"run": 0, "stride": 64}}, {"crash": {"run": 3, "stride": 97}},
                   {"crash": {"run": 21, "stride": 211}},
                   {"kill": {"run": 0, "ks": 8}}, {"kill": {"run": 3, "ks": 6}},
                   {"kill": {"run": 0, "ks": 30, "mode": "line"}}, {"kill": {"run": 3, "ks": 30, "mode": "line"}}]
    else:
        shards += [{"keyspace": 2000000}]
        shards += [{"crash": {"run": i, "stride": 1 if i in (0, 3) else 7}} for i in (0, 1, 3, 5, 6, 9, 10, 21)]
        shards += [{"kill": {"run": 0, "ks": "all"}}, {"kill": {"run": 3, "ks": "all"}},
                   {"kill": {"run": 6, "ks": 60}}, {"kill": {"run": 10, "ks": 60}},
                   {"kill": {"run": 0, "ks": "all", "mode": "line"}}, {"kill": {"run": 3, "ks": "all", "mode": "line"}},
                   {"kill": {"run": 6, "ks": 80, "mode": "line"}}]
    return shards


def work(shard, res, tier, seed):
    import warnings
    warnings.filterwarnings("ignore")
    if "replay" in shard:
        c = shard["replay"].get("case", {})
        if "history" in c:
            byname = {r["name"]: i for i, r in enumerate(RUNS)}
            history([byname[n] for n in c["history"]], res)
        elif "crash_state" in c:
            byname = {r["name"]: i for i, r in enumerate(RUNS)}
            crash_states(byname[c["crash_state"]["run"]], 64, res)
        elif "keyspace" in c:
            ks = c["keyspace"]
            e = tempfile.mkdtemp(prefix="verif_c12k_")
            try:
                do_run({"name": "keyspace:first", "inputs": ks["first"], "bs": None, "t": 0, "col": "reaction"}, e)
                run_b = {"name": "keyspace:then", "inputs": ks["then"], "bs": None, "t": 0, "col": "reaction"}
                judge(run_b, do_run(run_b, e), res, dict(case=c))
            finally:
                shutil.rmtree(e, ignore_errors=True)
        elif "kill" in c:
            byname = {r["name"]: i for i, r in enumerate(RUNS)}
            kill_run(byname[c["kill"]["run"]], 6, res, c["kill"].get("mode", "write"))
        return
    if "histories" in shard:
        for h in shard["histories"]:
            history(h, res)
        res.sample({"history": [RUNS[i]["name"] for i in shard["histories"][0]]})
    if "keyspace" in shard:
        keyspace(shard["keyspace"], res, seed)
    if "crash" in shard:
        crash_states(shard["crash"]["run"], shard["crash"]["stride"], res)
    if "kill" in shard:
        kill_run(shard["kill"]["run"], shard["kill"]["ks"], res, shard["kill"].get("mode", "write"))


def conclude_args(res, tier, seed):
    n = len(QUICK_RUNS) if tier == "quick" else len(RUNS)
    need = {"histories": 30, "histories_ending_in_cache_hit": 10, "crash_states": 20, "real_kills": 5,
            "real_kills:line": 3}
    if not res.counters.get("keyspace:unavailable"):  # waived when the key function is not there to hook
        need["keyspace_payloads"] = 100000
    return {"need": need,
            "min_cases": 30,
            "extra": {"exhaustive_subspace": "all %d ordered pairs over the %d-run alphabet; truncation prefixes with the "
                      "stride recorded per entry (every byte in the thorough tier for the one- and two-entry runs)" % (n * n, n)}}
