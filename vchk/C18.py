"""C18 - run statistics agree with the returned rows."""
import csv
import json
import os
import shutil
import subprocess
import tempfile

from vchk import common, rowlib
from vmon import oracle
from vgen import reactions as G

RULE = ("every run of the real Balancer (corpus + generated batches, batch sizes {1,7,25,None}, thresholds "
        "{0,.5,.9}, batches that repeat one reaction several times, runs with malformed rows, runs that share a cache "
        "directory with an earlier run that did not ask for statistics) and CLI runs: the stats dict / <out>.stats file is re-derived from the returned rows "
        "(and cross-checked with the snapshot taken after the rule-based validation); distinct non-trivial "
        "= distinct runs containing rows of at least 3 outcome classes")
ASSUMPTIONS = ["relations between stage counters and rows are asserted for runs whose inputs are all valid "
               "reactions; with malformed rows only reaction_cnt == number of input rows is asserted"]
TIMEOUT = {"quick": 900, "thorough": 3000}
CFGS = [
    {"batch_size": None, "threshold": 0, "n_jobs": 1},
    {"batch_size": 1, "threshold": 0.5, "n_jobs": 1},
    {"batch_size": 7, "threshold": 0.9, "n_jobs": 1},
    {"batch_size": 25, "threshold": 0.5, "n_jobs": 1},
    {"batch_size": 7, "threshold": 0, "n_jobs": 1},
]
NOMATCH = ["[Na+].[Cl-]>>O", "CCl>>N", "CCO>>", "CC(C)C=CC(C)C.O=O>>", "CS>>[Na+]"]
KEYS = ("reaction_cnt", "balanced_cnt", "rb_applied", "rb_solved", "mcs_applied", "mcs_solved",
        "confident_cnt")


def plan(tier, seed):
    rng = common.rng(seed, "C18")
    q = tier == "quick"
    cases = rowlib.corpus_cases(rng, 420 if q else 5032, 14 if q else 30, CFGS)
    mixed = (G.redox_family(rng, 40 if q else 400) + G.ionic_balanced(rng, 30 if q else 300)
             + G.deletions(rng, 40 if q else 400) + G.two_sided_oxygen(rng, 20 if q else 200)
             + G.side_swapped(rng, 20 if q else 200) + G.additions(rng, 30 if q else 300)
             + G.spectator_laden(rng, 20 if q else 200)
             + [("nomatch_%d" % i, rx) for i, rx in enumerate(NOMATCH * (3 if q else 20))])
    rng.shuffle(mixed)
    cases += rowlib.gen_cases(mixed, 15, CFGS, "mixed")
    # runs with malformed rows, incl. a first batch that consists of malformed rows only
    bad_rows = ["CCO>O>CC=O", "CC(C>>CCO", "CCO", "CCO>>CC=O>>C", ""]
    for k in range(6 if q else 40):
        good = [rx for _, rx in rng.sample(mixed, 7)]
        lead = rng.sample(bad_rows, rng.randint(1, 2))
        inputs = lead + good[:3] + [rng.choice(bad_rows)] + good[3:]
        cases.append({"tag": "malformed_%d" % k, "inputs": inputs, "ids": [],
                      "cfg": {"batch_size": [1, 2, len(lead), None][k % 4], "threshold": [0, 0.5][k % 2], "n_jobs": 1}})
    # the same reaction several times in one batch (every repeat is a row and is counted like one)
    rep_src = [rx for _, rx in G.spectator_laden(rng, 6 if q else 40)] + \
        ["CC(=O)OCC>>CCO", "CC(=O)Cl.NCC>>CC(=O)NCC", "CS(=O)(=O)OCC>>CCO", "CCO>>CC=O", "CC(=O)O.OCC>>CC(=O)OCC"]
    for k in range(6 if q else 40):
        a, b_ = rng.sample(rep_src, 2)
        inputs = [a] * rng.randint(3, 5) + [b_] * 2 + [rx for _, rx in rng.sample(mixed, 3)]
        rng.shuffle(inputs)
        cases.append({"tag": "repeats_%d" % k, "inputs": inputs, "ids": [],
                      "cfg": {"batch_size": [None, 4, None, 3][k % 4], "threshold": 0, "n_jobs": 1}})
    shards = rowlib.spread(cases, 14 if q else 44)
    # histories over one cache directory: a run that does not ask for statistics, then one that does
    for k in range(2 if q else 10):
        rows = rowlib.corpus_cases(rng, 10, 10, [CFGS[0]], tag="cachehist")[0]
        shards.append({"cache_history": {"inputs": rows["inputs"], "batch": [None, 4][k % 2], "threshold": [0, 0.5][k % 2]}})
    # CLI runs
    ncli = 2 if q else 8
    for i in range(ncli):
        rows = rowlib.corpus_cases(rng, 12, 12, [CFGS[0]], tag="cli")[0]
        shards.append({"cli": {"inputs": rows["inputs"], "batch": [None, 5][i % 2],
                               "threshold": [0, 0.5][(i // 2) % 2]}})
    return shards


def relations(inputs, rows, stats, snap_after_rb, threshold, res, where, witness):
    """-> list of violated relation names"""
    bad = []
    n = len(inputs)
    valid = [oracle.split_rsmi(rowlib.raw_of(i)) is not None and oracle.rfrags(rowlib.raw_of(i)) is not None
             for i in inputs]
    all_valid = all(valid)

    def chk(name, ok, **kw):
        res.ev()
        if not ok:
            bad.append(name)
            res.viol("stats_disagree_with_rows", relation=name, stats=stats, where=where,
                     detail=kw, **witness)

    g = lambda k: stats.get(k, 0)  # noqa
    chk("reaction_cnt==input_rows", g("reaction_cnt") == n, expected=n)
    if rows is None or len(rows) != n:
        res.count("runs_with_lost_rows")
        return bad
    if not all_valid:
        res.count("runs_with_malformed_rows")
    by = [r.get("solved_by") for r in rows]
    n_ib = sum(1 for b in by if b == "input-balanced")
    n_rb = sum(1 for b in by if b == "rule-based")
    n_mcs_attr = sum(1 for b in by if b == "mcs-based")
    n_mcs_solved = sum(1 for r in rows if r.get("solved_by") == "mcs-based" and r.get("solved") is True)
    # a malformed row never reaches a stage: "not solved before the MCS stage" is about the valid rows
    not_before = sum(1 for b, ok in zip(by, valid) if ok and b not in ("input-balanced", "rule-based"))
    chk("balanced_cnt==rows_input_balanced", g("balanced_cnt") == n_ib, expected=n_ib)
    chk("confident_cnt==rows_solved_by_mcs", g("confident_cnt") == n_mcs_solved, expected=n_mcs_solved)
    chk("mcs_applied==rows_unsolved_before_mcs", g("mcs_applied") == not_before, expected=not_before)
    if snap_after_rb is not None and all_valid:
        chk("mcs_applied==snapshot_unsolved_after_rule_stage", g("mcs_applied") == snap_after_rb,
            expected=snap_after_rb)
    chk("rb_solved<=rb_applied", g("rb_solved") <= g("rb_applied"))
    chk("mcs_solved<=mcs_applied", g("mcs_solved") <= g("mcs_applied"))
    chk("rb_solved>=rows_rule_based", g("rb_solved") >= n_rb, expected=n_rb)
    chk("mcs_solved>=rows_attributed_to_mcs", g("mcs_solved") >= n_mcs_attr, expected=n_mcs_attr)
    for k in KEYS:
        v = stats.get(k)
        if v is None and not any(valid):
            continue  # no valid row reached a stage: only reaction_cnt is reported
        chk("stat_%s_is_nonneg_int" % k, isinstance(v, int) and not isinstance(v, bool) and v >= 0, value=v)
    classes = {b if r.get("solved") else "declined:" + str(b) for b, r in zip(by, rows)}
    if len(classes) >= 3:
        res.case([sorted(map(str, inputs)), threshold, where])
    return bad


def judge(case, out, res):
    cfg = case.get("cfg") or {}
    snap = None
    if out["batches"] and all(b["rows"] is not None for b in out["batches"]):
        try:
            snap = 0
            for b in out["batches"]:
                st = dict(b["stages"])
                snap += sum(1 for s in st["rb_check"] if not s[2])
        except KeyError:
            snap = None
    w = dict(cfg=cfg, inputs=case["inputs"])
    relations(case["inputs"], out["rows"], out["stats"], snap, cfg.get("threshold", 0), res, "api", w)
    # per-batch stats against per-batch rows
    for b in out["batches"]:
        if b["rows"] is None or b["stats"] is None:
            continue
        rows = [{k: r.get(k) for k in ("solved", "solved_by")} for r in b["rows"]]
        if len(rows) != len(b["inputs"]):
            continue
        st = dict(b["stages"])
        s2 = sum(1 for s in st.get("rb_check", []) if not s[2]) if "rb_check" in st else None
        relations([r.get("reaction") for r in b["inputs"]], rows, b["stats"], s2,
                  cfg.get("threshold", 0), res, "batch", w)
    res.count("runs")


def run_cli(spec, res):
    tmp = tempfile.mkdtemp(prefix="verif_c18cli_")
    try:
        src = os.path.join(tmp, "in.csv")
        dst = os.path.join(tmp, "out.csv")
        with open(src, "w", newline="") as f:
            wri = csv.writer(f)
            wri.writerow(["reaction", "tag"])
            for i, rx in enumerate(spec["inputs"]):
                wri.writerow([rx, "t%d" % i])
        cmd = [common.PY, "-m", "synrbl", "run", src, "-o", dst, "-p", "1", "--out-columns", "tag",
               "--min-confidence", str(spec["threshold"])]
        if spec["batch"]:
            cmd += ["-b", str(spec["batch"])]
        p = subprocess.run(cmd, cwd=tmp, capture_output=True, text=True, timeout=600,
                           env=common.worker_env())
        if p.returncode != 0 or not os.path.exists(dst):
            res.viol("cli_failed", rc=p.returncode, stderr=p.stderr[-800:], cli=spec)
            return
        with open(dst + ".stats") as f:
            stats = json.load(f)
        with open(dst, newline="") as f:
            rows = list(csv.DictReader(f))
        for r in rows:
            r["solved"] = r.get("solved") == "True"
            if r.get("solved_by") == "":
                r["solved_by"] = None
        relations(spec["inputs"], rows, stats, None, spec["threshold"], res, "cli",
                  dict(cli=spec))
        res.count("cli_runs")
    finally:
        shutil.rmtree(tmp, ignore_errors=True)


def cache_history(spec, res):
    """statistics of runs that share a cache directory: first a caching run that does not ask for statistics,
    then caching runs that do (fresh Balancer objects, as separate sessions would be); the relations must hold for
    every run that returns statistics"""
    import copy
    from vmon import pipeline
    tmp = tempfile.mkdtemp(prefix="verif_c18cache_")
    try:
        inputs, bs, t = spec["inputs"], spec["batch"], spec["threshold"]
        b1 = pipeline.make_balancer(confidence_threshold=t, n_jobs=1, cache=True, cache_dir=tmp)
        b1.rebalance(copy.deepcopy(inputs), output_dict=True, batch_size=bs)  # no stats argument
        for k in range(2):
            b2 = pipeline.make_balancer(confidence_threshold=t, n_jobs=1, cache=True, cache_dir=tmp)
            rows, stats, err = pipeline.run(b2, inputs, batch_size=bs)
            res.count("cache_history_runs")
            if err:
                res.viol("stats_disagree_with_rows", relation="run_failed", stats=stats, where="cache_history",
                         detail={"error": err}, cache_history=spec)
                continue
            relations(inputs, rows, stats, None, t, res, "cache_history", dict(cache_history=spec))
    finally:
        shutil.rmtree(tmp, ignore_errors=True)


def faulted_run(case, res):
    """a later stage (the MCS search) fails for every second batch: whatever rows and statistics come back must
    still agree with each other (the counts describe the returned rows, not rows that were given up)"""
    cfg = dict(case.get("cfg") or {})
    cfg["batch_size"] = cfg.get("batch_size") or 4
    b, tr = rowlib.balancer(cfg.get("threshold", 0), 1, True)
    orig = b.mcs_search.find
    n = {"k": 0}

    def find(reactions):
        n["k"] += 1
        if n["k"] % 2 == 0:
            raise TimeoutError("injected failure in the MCS search stage")
        return orig(reactions)

    b.mcs_search.find = find
    try:
        out = rowlib.run_case(dict(case, cfg=cfg))
    finally:
        del b.mcs_search.find
    res.count("faulted_runs")
    rows = out["rows"]
    if not rows or out["err"]:
        return
    # judged against the rows that came back (a batch that was given up is C05's business, not C18's)
    inputs = [r.get("input_reaction") for r in rows]
    if not all(isinstance(i, str) for i in inputs):
        return
    res.count("faulted_runs_judged")
    relations(inputs, rows, out["stats"], None, cfg.get("threshold", 0), res, "api_after_fault",
              dict(cfg=cfg, inputs=case["inputs"], fault="mcs_search.find raises in every second batch"))


def work(shard, res, tier, seed):
    if "replay" in shard:
        v = shard["replay"]
        if "cli" in v:
            run_cli(v["cli"], res)
        else:
            case = {"tag": "replay", "inputs": v["inputs"], "cfg": v.get("cfg")}
            judge(case, rowlib.run_case(case), res)
        return
    if "cli" in shard:
        run_cli(shard["cli"], res)
        return
    if "cache_history" in shard or ("replay" in shard and "cache_history" in shard["replay"]):
        cache_history(shard.get("cache_history") or shard["replay"]["cache_history"], res)
        return
    for ci, case in enumerate(shard["cases"]):
        if ci % 4 == 2 and len(case["inputs"]) >= 6:
            faulted_run(case, res)
        out = rowlib.run_case(case)
        judge(case, out, res)
        # thresholds equal to / next to the confidences this very batch produced
        confs = sorted({r.get("confidence") for r in (out["rows"] or []) if isinstance(r.get("confidence"), float)})
        if confs and ci % 3 == 0:
            import math
            probe = [confs[0], confs[-1], math.nextafter(confs[len(confs) // 2], math.inf), round(confs[-1], 2)]
            for t in probe[: 2 if tier == "quick" else 4]:
                if 0 <= t <= 1:
                    c2 = {"tag": case["tag"] + "@t", "inputs": case["inputs"],
                          "cfg": dict(case.get("cfg") or {}, threshold=t)}
                    judge(c2, rowlib.run_case(c2), res)
                    res.count("threshold_probe_runs")
        if len(res.samples) < 2:
            res.sample({"n_inputs": len(case["inputs"]), "cfg": case.get("cfg"), "stats": out["stats"],
                        "solved_by": [r.get("solved_by") for r in (out["rows"] or [])]})


def conclude_args(res, tier, seed):
    return {"need": {"runs": 20, "cli_runs": 1, "threshold_probe_runs": 5, "cache_history_runs": 2, "faulted_runs": 3}, "min_cases": 10}
