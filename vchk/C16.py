"""C16 - functional-group recognition depends only on the molecular graph;
positive pattern matches are real occurrences and every occurrence is found."""
import random

from rdkit import Chem

from vchk import common
from vmon import oracle, refmatch
from vgen import corpus

RULE = ("real is_functional_group on every (molecule, group, non-carbon atom) vs the same question after a random "
        "renumbering of the atoms (all 25 groups); real pattern_match on every (molecule, atom, pattern) over all "
        "pattern / anti-pattern / group-atom structures whose elements include the atom's, judged by checking the "
        "returned mapping directly and by an independent backtracking sub-graph matcher for missed occurrences; "
        "molecules = corpus sample + constructed small-ring / fused / hetero-aromatic / non-six-membered aromatic (tropylium, azulene, annulene) molecules + molecules whose "
        "hydrogens are atoms of the graph (isotope-labelled H, Chem.AddHs); distinct "
        "non-trivial = distinct (molecule, atom, pattern) where the anchor's element occurs in the pattern")
ASSUMPTIONS = ["atoms match on element symbol and bonds on RDKit bond type (what the library compares)",
               "an occurrence is an injective map of all pattern atoms with every pattern bond present"]
TIMEOUT = {"quick": 900, "thorough": 3000}

CONSTRUCTED = [
    "O=C1CO1", "CC1OC1=O", "O=C1OC1C", "C1OC(C)O1", "O=C1CC(=O)O1", "O=C1NC1", "N1C(=O)C1C", "C1SC1=O",
    "C[N](C)(C)->[O]", "C[N](=O)->[O]", "c1cc[n](->[O])cc1", "C[S](C)->[O]", "CC[N](C)(->[O])CC", "C[N+](C)(C)[O-]",
    "CP(C)(C)->[O]", "N->[Pt](Cl)(Cl)<-N", "CO->[Zn+2]", "CC(=O)O->[Cu+2]",
    "C1OCO1", "C1COCO1", "O1COCOC1", "COCOC", "C1OC1", "OC1OC1", "Oc1ccc[nH]1", "COc1ccccn1", "CCOc1ccccn1",
    "Oc1cccccc1", "Oc1ccccn1", "Oc1ccncc1", "Oc1ccco1", "Oc1cccs1", "c1ccc2[nH]ccc2c1", "Oc1ccc2ccccc2c1",
    "OC1=CC=CC=C1", "O=C1OC(=O)C1", "O=C1CCC(=O)O1", "CC(=O)OC(C)=O", "O=C1OCCO1", "NC(=O)OC", "NC(N)=O",
    "O=C1NC(=O)N1", "N1C(=O)OC1=O", "CSC(C)=O", "COC(C)=S", "S1C(=O)CC1", "CC(=O)SC(C)=O", "ON=O", "O=N(=O)C"
    if False else "C[N+](=O)[O-]", "CON", "ONC(C)=O", "CC(C)=O", "O=C1CCC1", "O=C1CC(=O)C1", "CC=O", "O=CC=O",
    "N#CC#N", "N#CC1CC1", "NC1CC1", "N1CC1", "C1CN1C", "Nc1ccccc1", "Nc1ccccn1", "Nc1ccc[nH]1", "OCO", "OC(O)O",
    "OCOC", "C1OCOC1O", "OC1OCCO1", "C=CO", "OC=CC=CO", "OC1=CCC1", "C1=COC=C1", "C1=COCO1", "COC=C",
    "CC(O)=O", "OC(=O)C(O)=O", "O=C(O)C1CC1", "O=C1OC(=O)O1", "O=C(OC)OC", "OC(=O)OC", "CSC", "C1CSC1", "C1SCS1",
    "CSCSC", "COC(=O)C1CC1C(=O)OC",
    # aromatic rings that are not six-membered (an open six-atom aromatic path is not a benzene ring): tropylium,
    # azulene perimeters, tropone / tropolone, cyclopentadienide, [14]annulene, linear and angular polycycles
    "Oc1ccccc[cH+]1", "Nc1ccccc[cH+]1", "COc1ccccc[cH+]1", "Sc1ccccc[cH+]1", "Oc1ccc2cccc2cc1", "Oc1cc2cccccc2c1",
    "Nc1ccc2cccc2cc1", "Nc1cc2cccccc2c1", "Oc1cccc2cccc2c1", "CC(=O)Oc1ccc2cccc2cc1", "O=c1cccccc1", "O=c1cccccc1O",
    "Oc1ccc[cH-]1", "Nc1ccc[cH-]1", "Oc1ccccccccccccc1", "Nc1ccccccccccccc1", "Oc1ccc2ccc3cccc3cc2c1",
    "Oc1cccc2ccccc12", "Oc1c2ccccc2cc2ccccc12", "Oc1ccc2cc3ccccc3cc2c1", "Oc1cccc2c1ccc1ccccc12", "Nc1cccc[o+]1",
    "Oc1cccc[s+]1", "OC1=CC=CC=CC1", "OCc1ccccc[cH+]1", "NCc1ccc2cccc2cc1", "COc1ccc2cccc2cc1", "O=C1OC2CC1C2", "C12OC1O2" if False else "C1OC2CC1O2",
]


# hydrogen atoms that are part of the graph: isotope-labelled hydrogens survive parsing as atoms
LABELLED_H = [
    "[2H]OC(C)=O", "CC(=O)O[2H]", "[2H]N([2H])C(C)=O", "[2H]OC", "CO[2H]", "[2H]N(C)C", "[2H]Oc1ccccc1",
    "[2H]OC(=O)c1ccccc1", "[2H]NC(=O)OC", "[3H]OCC", "[2H]SC", "[2H]OP(=O)(O)O", "[2H]OC=C", "[2H]OC(O)C",
    "[2H]N(C(C)=O)C(C)=O", "[2H]OC(=O)OC", "[2H]NC(N)=O", "[2H]NC(=O)N[2H]", "CC(=O)N([2H])C", "[2H]OCO[2H]",
    "[2H]C([2H])([2H])OC(C)=O", "[2H]C(=O)OC", "[2H]C(=O)N(C)C", "[2H]OS(C)(=O)=O", "[2H]Nc1ccccc1",
    "[2H]N1CC1", "[2H]OC1OC1", "[2H]ON", "CC(=O)S[2H]", "[2H]OC(=O)C(=O)O[2H]", "N#CC([2H])O[2H]",
]


def mols_for(tier, seed):
    rng = common.rng(seed, "C16")
    pool = [m for m in corpus.molecules()]
    n = 500 if tier == "quick" else 6000
    out = []
    for s in rng.sample(pool, n):
        d = oracle.demap(s)
        if d and "." not in d:
            out.append(d)
    cons = [c for c in CONSTRUCTED if oracle.parse(c) is not None]
    return out, cons


def plan(tier, seed):
    q = tier == "quick"
    mols, cons = mols_for(tier, seed)
    shards = [{"mols": c, "renum": 4 if q else 6} for c in common.stripe(mols, 15 if q else 46)]
    shards.append({"mols": cons, "renum": 6, "all_atoms": True})
    shards.append({"mols": [c for c in LABELLED_H if oracle.parse(c) is not None], "renum": 8, "all_atoms": True})
    # ... and molecules carrying all their hydrogens as atoms (Chem.AddHs)
    rng = common.rng(seed, "C16h")
    shards.append({"mols": rng.sample(mols, 30 if q else 300) + cons[:30], "renum": 4, "addhs": True})
    return shards


def reparse(mol, rng):
    """same graph rebuilt from a randomly rooted SMILES: atom order *and* bond order change"""
    m = Chem.Mol(mol)
    for a in m.GetAtoms():
        a.SetAtomMapNum(a.GetIdx() + 1)
    Chem.rdBase.SeedRandomNumberGenerator(rng.randrange(1 << 30))
    s = Chem.MolToSmiles(m, canonical=False, doRandom=True)
    ps = Chem.SmilesParserParams()
    ps.removeHs = False  # hydrogens that are atoms of the graph stay atoms
    new = Chem.MolFromSmiles(s, ps)
    if new is None or new.GetNumAtoms() != mol.GetNumAtoms():
        return None, None
    o2n = {a.GetAtomMapNum() - 1: a.GetIdx() for a in new.GetAtoms()}
    for a in new.GetAtoms():
        a.SetAtomMapNum(0)
    return new, o2n


def renumber(mol, rng):
    n = mol.GetNumAtoms()
    order = list(range(n))
    rng.shuffle(order)
    new = Chem.RenumberAtoms(mol, order)
    old2new = {old: new_i for new_i, old in enumerate(order)}
    return new, old2new


def all_patterns(cfg):
    pats = []
    for name, c in cfg.items():
        for k, p in enumerate(c.pattern):
            pats.append(("%s/pattern%d" % (name, k), p))
        for k, p in enumerate(c.groups):
            pats.append(("%s/group%d" % (name, k), p))
        for k, p in enumerate(c.anti_pattern):
            pats.append(("%s/anti%d" % (name, k), p))
    # distinct by canonical smiles + atom order
    seen, out = set(), []
    for label, p in pats:
        key = Chem.MolToSmiles(p, canonical=False)
        if key not in seen:
            seen.add(key)
            out.append((label, p, key))
    return out


def flatten(match):
    out = []
    for x in match:
        if isinstance(x, tuple) and len(x) == 2 and all(isinstance(y, int) for y in x):
            out.append(x)
        elif isinstance(x, (list, set, tuple)):
            out.extend(flatten(x))
    return out


def work(shard, res, tier, seed):
    import warnings
    warnings.filterwarnings("ignore")
    from synrbl.SynUtils import functional_group_utils as F
    rng = common.rng(seed, "C16w", str(len(shard.get("mols", []))), str(shard.get("mols", [""])[:1]))
    pats = all_patterns(F.functional_group_config)
    groups = list(F.functional_group_config)
    if "replay" in shard:
        c = shard["replay"].get("case", {})
        shard = {"mols": [c.get("smiles")], "renum": 10, "all_atoms": True}
    for s in shard["mols"]:
        mol = oracle.parse(s)
        if mol is None:
            continue
        if shard.get("addhs"):
            mol = Chem.AddHs(mol)
            res.count("molecules_with_all_hydrogens_as_atoms")
        if any(a.GetSymbol() == "H" for a in mol.GetAtoms()):
            res.count("molecules_with_hydrogen_atoms_in_the_graph")
        atoms = [a.GetIdx() for a in mol.GetAtoms()
                 if (shard.get("all_atoms") or a.GetSymbol() != "C") and a.GetSymbol() != "H"]
        if not atoms:
            continue
        # (1) renumbering invariance of is_functional_group
        base = {}
        for g in groups:
            for i in atoms:
                try:
                    base[(g, i)] = F.is_functional_group(mol, g, i)
                except Exception as e:  # noqa
                    base[(g, i)] = "raised " + type(e).__name__
        for k in range(shard["renum"]):
            new, o2n = renumber(mol, rng) if k % 2 == 0 else reparse(mol, rng)
            if new is None:
                continue
            res.count("renumbered_by_%s" % ("RenumberAtoms" if k % 2 == 0 else "reparse"))
            for (g, i), want in base.items():
                res.ev()
                res.count("renumbering_evaluated")
                try:
                    got = F.is_functional_group(new, g, o2n[i])
                except Exception as e:  # noqa
                    got = "raised " + type(e).__name__
                if want is True or got is True:
                    res.count("renumbering_positive")
                if got != want:
                    res.viol("group_membership_depends_on_numbering", case={"smiles": s}, group=g, atom=i,
                             original=want, renumbered=got, order=[o2n[j] for j in range(mol.GetNumAtoms())])
        # (2) pattern_match vs reference (on the molecule as given and on one re-parsed copy)
        variants = [(mol, atoms)]
        rp, o2n = reparse(mol, rng)
        if rp is not None:
            variants.append((rp, [o2n[i] for i in atoms]))
        for vmol, vatoms in variants:
          for label, p, key in pats:
            psyms = {a.GetSymbol() for a in p.GetAtoms()}
            mol_, atoms_ = vmol, vatoms
            for i in atoms_:
                if mol_.GetAtomWithIdx(i).GetSymbol() not in psyms:
                    continue
                res.ev()
                res.count("pattern_match_evaluated")
                res.case([Chem.MolToSmiles(mol_, canonical=False), i, key])
                try:
                    ok, match = F.pattern_match(mol_, i, p)
                except Exception as e:  # noqa
                    res.viol("pattern_match_raised", case={"smiles": s}, atom=i, pattern=key,
                             error=repr(e)[:200])
                    continue
                if ok:
                    res.count("pattern_match_positive")
                    defects = refmatch.check_mapping(mol_, i, p, flatten(match))
                    if defects:
                        # the verdict is what the property is about; the returned mapping only
                        # tells us by which mechanism a wrong verdict came about
                        res.count("positive_with_garbled_mapping")
                        if not refmatch.occurrences_containing(mol_, i, p):
                            res.viol("positive_match_without_real_occurrence",
                                     case={"smiles": Chem.MolToSmiles(mol_, canonical=False)}, atom=i,
                                     pattern=key, label=label, defects=sorted(set(defects)),
                                     pattern_has_ring=p.GetRingInfo().NumRings() > 0,
                                     mapping=sorted(flatten(match)))
                else:
                    occ = refmatch.occurrences_containing(mol_, i, p)
                    if occ:
                        res.viol("occurrence_not_found", case={"smiles": Chem.MolToSmiles(mol_, canonical=False)}, atom=i,
                                 pattern=key, label=label,
                                 occurrence=sorted(occ[0].items()))
    res.sample({"molecule": shard["mols"][0], "patterns": len(pats), "groups": len(groups)})


def conclude_args(res, tier, seed):
    return {"need": {"renumbering_evaluated": 5000, "renumbering_positive": 200,
                     "pattern_match_evaluated": 5000, "pattern_match_positive": 500,
                     "molecules_with_hydrogen_atoms_in_the_graph": 40}, "min_cases": 2000}
