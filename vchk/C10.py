"""C10 - MCS search reports genuine, correctly attributed, largest common
substructures; results of different reactions are never mixed up."""
import itertools

from rdkit import Chem

from vchk import common, rowlib
from vmon import oracle
from vgen import corpus
from vgen import reactions as G

RULE = ("monitor at exit of the real MCSSearch.find (inside real pipeline runs over corpus + generated reactions in "
        "mixed batches of 1..30, incl. reactions for which no condition matches anything): sorted_reactants == "
        "molecules of that row's carbon-richer side, one result per molecule, every non-empty pattern is an RDKit "
        "substructure of the molecule it is attributed to, retained entry has the maximal total over the three "
        "captured condition results of the same id; plus the real ExtractMCS.get_largest_condition on enumerated "
        "result tables (3 conditions x 1..2 rows x 7 cell shapes) against a reference selection; distinct "
        "non-trivial = distinct reactions with >= 2 molecules on the searched side, plus enumerated tables")
ASSUMPTIONS = ["containment is RDKit HasSubstructMatch of the reported SMARTS in the reported molecule",
               "tie-breaks between equally large conditions are not asserted (the property does not state them)"]
TIMEOUT = {"quick": 1200, "thorough": 3400}
SHAPES = [[], [""], ["C"], ["CC"], ["CCC"], ["C", "CC"], ["", "CC"], ["[2H]C([2H])[2H]"]]
NOMATCH = ["[Na+].[Cl-]>>O", "CCl>>N", "[K+].[Br-]>>CC", "CS>>[Na+]", "N#N>>CC(C)C", "[Li+].[OH-]>>c1ccccc1"]


def natoms(smarts):
    if not smarts:
        return 0
    m = Chem.MolFromSmarts(smarts)
    return m.GetNumAtoms() if m is not None else 0


def total(entry):
    return sum(natoms(s) for s in (entry.get("mcs_results") or []))


def plan(tier, seed):
    q = tier == "quick"
    rng = common.rng(seed, "C10")
    rows = corpus.stratified_sample(rng, 420 if q else 5032)
    pairs = [("val_%d" % r["id"], r["reaction"]) for r in rows]
    pairs += G.deletions(rng, 30 if q else 300) + G.redox_family(rng, 20 if q else 200)
    pairs += [("nomatch_%d" % i, s) for i, s in enumerate(NOMATCH * (2 if q else 10))]
    pairs += G.dot_closure_mcs(rng, 16 if q else 160) + G.dative(rng, 12 if q else 100)
    rng.shuffle(pairs)
    cases = []
    i = 0
    k = 0
    while i < len(pairs):
        n = rng.choice([1, 2, 3, 5, 8, 13, 21, 30])
        chunk = pairs[i:i + n]
        i += n
        # a share of the larger batches runs with a process pool: the monitored functions (find, ensemble_mcs)
        # still run in this process, the search jobs in the pool's workers
        cases.append({"tag": "mix_%d" % k, "inputs": [rx for _, rx in chunk],
                      "cfg": {"batch_size": None, "threshold": 0, "n_jobs": 4 if (n >= 5 and k % 3 == 0) else 1}})
        k += 1
    shards = rowlib.spread(cases, 15 if q else 44)
    # inner searches of one reaction forced to 'canceled' (what RDKit's 1 s budget does under load)
    fc = [dict(c, cfg=dict(c["cfg"], n_jobs=1)) for c in cases if 2 <= len(c["inputs"]) <= 8][: (3 if q else 16)]
    shards += [{"cancel_cases": [c]} for c in fc]
    if q:
        shards.append({"tables": {"rows": 1, "part": 0, "parts": 1}})
        shards += [{"tables": {"rows": 2, "part": p, "parts": 3, "sample": 400}} for p in range(3)]
    else:
        shards.append({"tables": {"rows": 1, "part": 0, "parts": 1}})
        shards += [{"tables": {"rows": 2, "part": p, "parts": 14}} for p in range(14)]
    return shards


def check_find(reactions_after, cond_results, largest, res, inputs):
    """reactions_after: the list MCSSearch.find returned (rows with 'mcs')"""
    by_id = {}
    for ci, cr in enumerate(cond_results or []):
        for e in cr:
            by_id.setdefault(e.get("id"), {})[ci] = e
    for r in reactions_after:
        if r.get("solved"):
            continue
        res.count("rows_sent_to_mcs")
        m = r.get("mcs")
        if m is None:
            res.count("rows_without_mcs_data")
            continue
        res.ev()
        res.count("find_results_checked")
        rid = r.get("id")
        rx = r.get("reaction")
        w = dict(case={"reaction": rx, "id": rid}, inputs=inputs)
        if m.get("id") != rid:
            res.viol("mcs_data_of_other_reaction", mcs_id=m.get("id"), **w)
            continue
        sr, mr = m.get("sorted_reactants") or [], m.get("mcs_results") or []
        side = 0 if r.get("carbon_balance_check") in ("products", "balanced") else 1
        sp = oracle.split_rsmi(rx)
        want = oracle.frags(sp[side]) if sp else None
        got = oracle.frags(".".join(sr)) if sr else oracle.Counter()
        if len(sr) >= 2:
            res.case(rx)
        if want is None or got is None or want != got:
            extra = missing = None
            if want is not None and got is not None:
                extra = {k: v for k, v in oracle.msub(got, want).items() if v > 0}
                missing = {k: v for k, v in oracle.msub(want, got).items() if v > 0}
            res.viol("sorted_reactants_are_not_the_molecules_of_the_searched_side", side=side,
                     sorted_reactants=sr, extra=extra, missing=missing,
                     split_columns=[r.get("reactants"), r.get("products")], **w)
            continue
        if len(mr) != len(sr):
            res.viol("one_result_per_molecule_violated", n_results=len(mr), n_molecules=len(sr), **w)
            continue
        bad = None
        for s, patt in zip(sr, mr):
            if not patt:
                continue
            mol, q = Chem.MolFromSmiles(s), Chem.MolFromSmarts(patt)
            res.count("containment_evaluated")
            if mol is None or q is None or not mol.HasSubstructMatch(q):
                bad = (s, patt)
                break
        if bad:
            res.viol("pattern_not_contained_in_attributed_molecule", molecule=bad[0], pattern=bad[1], **w)
            continue
        # maximality among the captured condition results of the same id
        ents = by_id.get(rid, {})
        if ents:
            res.count("maximality_evaluated")
            mx = max(total(e) for e in ents.values())
            mine = sum(natoms(p) for p in mr)
            same = [ci for ci, e in ents.items()
                    if (e.get("mcs_results") or []) == mr and (e.get("sorted_reactants") or []) == sr]
            if mine < mx:
                res.viol("retained_condition_is_not_the_largest", retained_total=mine, largest_total=mx,
                         totals={ci: total(e) for ci, e in ents.items()}, **w)
            elif not same:
                res.viol("retained_entry_is_none_of_the_condition_results", **w)


def cancel_case(case, res):
    """the same monitor while the first inner FindMCS call of each (reaction, condition) job - or all of
    them - is reported as canceled"""
    from vmon.faults import Injector
    inj = Injector(budget=2.0)
    inj.install()
    try:
        inj.set_plan({})
        pipeline_case(case, res, count=False)
        jobs = sorted({"%s/%d" % (e[1], e[2]) for e in inj.log if e[0] == "fit"})
        for mode in ([0], [1], "all"):
            for rid in sorted({j.split("/")[0] for j in jobs}):
                mine = [j for j in jobs if j.startswith(rid + "/")]
                inj.set_plan({"cancel": {j: mode for j in mine}})
                pipeline_case(case, res)
                res.count("forced_cancel_runs")
    finally:
        inj.uninstall()


def pipeline_case(case, res, count=True):
    import synrbl.mcs_search as MS
    captured = {}
    orig_ens = MS.ensemble_mcs

    def spy_ens(*a, **k):
        out = orig_ens(*a, **k)
        captured["cond"] = out
        return out

    nj = (case.get("cfg") or {}).get("n_jobs", 1)
    b, _ = rowlib.balancer(0, nj, trace=False)
    if nj > 1:
        res.count("find_monitored_with_process_pool")
    orig_find = b.mcs_search.find
    seen = {}

    def spy_find(reactions):
        out = orig_find(reactions)
        import copy
        seen["rows"] = copy.deepcopy([{k: r.get(k) for k in ("id", "reaction", "solved", "mcs", "reactants",
                                                               "products", "carbon_balance_check")} for r in out])
        return out

    MS.ensemble_mcs = spy_ens
    b.mcs_search.find = spy_find
    try:
        rowlib.pipeline.run(b, case["inputs"])
    finally:
        MS.ensemble_mcs = orig_ens
        del b.mcs_search.find
    if "rows" in seen:
        check_find(seen["rows"], captured.get("cond"), None, res, case["inputs"])
    else:
        res.count("find_not_reached")


def mk(idx, shape):
    return {"id": str(idx), "mcs_results": list(shape), "sorted_reactants": ["CCCC"] * len(shape), "issue": ""}


def ref_check(conds, out, res):
    res.ev()
    res.count("tables_evaluated")
    nrows = min(len(c) for c in conds)
    w = dict(case={"table": [[e["mcs_results"] for e in c] for c in conds]})
    ids = [e.get("id") for e in out]
    if len(set(ids)) != len(ids):  # (the order of the retained rows is not asserted: find() re-attaches by id)
        res.viol("selection_ids_not_unique", ids=ids, **w)
        return
    outby = {e["id"]: e for e in out}
    for idx in range(nrows):
        tots = [total(c[idx]) for c in conds]
        mx = max(tots)
        e = outby.get(str(idx))
        if mx == 0:
            if e is not None:  # whether a row without any match is kept (with an empty result) is not stated
                res.count("row_without_any_match_retained(not asserted)")
            continue
        if e is None:
            res.count("row_with_match_dropped(not asserted)")
            continue
        if not any(e is c[idx] or e == c[idx] for c in conds):
            res.viol("retained_entry_is_none_of_the_condition_results", row=idx, **w)
            return
        if total(e) != mx:
            res.viol("retained_condition_is_not_the_largest", row=idx, retained_total=total(e),
                     largest_total=mx, **w)
            return
    extra = set(outby) - {str(i) for i in range(nrows)}
    if extra:
        res.viol("selection_contains_unknown_rows", ids=sorted(extra), **w)


def tables(spec, seed, res):
    import joblib
    from synrbl.SynMCSImputer.SubStructure.extract_common_mcs import ExtractMCS
    rows = spec["rows"]
    rng = common.rng(seed, "C10t", rows)
    combos = itertools.product(range(len(SHAPES)), repeat=3 * rows)
    allc = list(combos)
    mine = allc[spec["part"]::spec["parts"]]
    if spec.get("sample"):
        mine = rng.sample(mine, spec["sample"])
    else:
        res.count("tables_exhaustive_rows%d" % rows, len(mine))
    with joblib.parallel_backend("threading"):
        for combo in mine:
            conds = [[mk(r, SHAPES[combo[c * rows + r]]) for r in range(rows)] for c in range(3)]
            out = ExtractMCS.get_largest_condition(*conds)
            ref_check(conds, out, res)
            res.case_count()
    res.sample({"table": [[SHAPES[i] for i in mine[len(mine) // 2][c * rows:(c + 1) * rows]] for c in range(3)]})


def work(shard, res, tier, seed):
    import warnings
    warnings.filterwarnings("ignore")
    if "replay" in shard:
        v = shard["replay"]
        if "inputs" in v:
            pipeline_case({"inputs": v["inputs"]}, res)
        elif "table" in v.get("case", {}):
            from synrbl.SynMCSImputer.SubStructure.extract_common_mcs import ExtractMCS
            t = v["case"]["table"]
            conds = [[mk(r, sh) for r, sh in enumerate(c)] for c in t]
            ref_check(conds, ExtractMCS.get_largest_condition(*conds), res)
        return
    if "tables" in shard:
        tables(shard["tables"], seed, res)
        return
    if "cancel_cases" in shard:
        for case in shard["cancel_cases"]:
            cancel_case(case, res)
        return
    for case in shard["cases"]:
        pipeline_case(case, res)
    res.sample({"batch": shard["cases"][0]["inputs"][:2]})


def conclude_args(res, tier, seed):
    n1 = len(SHAPES) ** 3
    n2 = len(SHAPES) ** 6
    ex = "3 conditions x 1 row (%d tables) enumerated completely" % n1
    if tier == "thorough":
        ex += "; 3 x 2 rows (%d tables) enumerated completely: %s" % (
            n2, res.counters.get("tables_exhaustive_rows2", 0) == n2)
    return {"need": {"find_results_checked": 100, "containment_evaluated": 100, "maximality_evaluated": 100,
                     "tables_evaluated": 300, "tables_exhaustive_rows1": n1, "forced_cancel_runs": 5,
                     "find_monitored_with_process_pool": 3}, "min_cases": 100,
            "extra": {"exhaustive_subspace": ex}}
