"""Shared helpers for the checks that observe rows returned by the real
Balancer.rebalance (C01-C06, C13, C14, C18)."""
import os
import time

from vmon import oracle, pipeline

_bal = {}
_TIMEOUT_RX = __import__("re").compile(r"time[\s-]?out|timed[\s-]out|time[\s-]limit|time[\s-]budget|cancel+ed|took too long|too slow",
                                       __import__("re").I)


def machine_busy(probe=0.03):
    """is this process being descheduled?  A canary burns `probe` seconds of CPU time of the calling thread and
    looks at the wall time that took: on a machine with a free core the two agree; with more runnable work than
    cores (somebody else's jobs - our own shards never exceed the core count) the canary takes longer.  In that
    state wall-clock budgets inside the MCS stage fire for reasons that have nothing to do with the code, so
    run-vs-run comparisons of MCS rows made then are counted, not judged.  (The 1-minute load average is a
    second, slower witness.)"""
    t0, c0 = time.perf_counter(), time.thread_time()
    x = 0
    while time.thread_time() - c0 < probe:
        x += 1
    wall = time.perf_counter() - t0
    if wall > 1.5 * probe:
        return True
    try:
        return os.getloadavg()[0] > 1.5 * (os.cpu_count() or 1)
    except OSError:
        return False


def tainted(row):
    """does this row say that a wall-clock budget fired?  (wording-tolerant: the message text is not part of any
    property; rows so marked are excluded from run-vs-run comparison and counted)"""
    return isinstance(row, dict) and isinstance(row.get("issue"), str) and bool(_TIMEOUT_RX.search(row["issue"]))



def balancer(threshold=0, n_jobs=1, trace=True, **kw):
    # one real Balancer per (n_jobs, tracing); the threshold is a public attribute read at run time
    key = (n_jobs, trace, tuple(sorted(kw.items())))
    if key not in _bal:
        b = pipeline.make_balancer(confidence_threshold=threshold, n_jobs=n_jobs, **kw)
        tr = pipeline.Tracer(b) if trace else None
        _bal[key] = (b, tr)
    _bal[key][0].confidence_threshold = threshold
    return _bal[key]


def run_case(case, trace=True):
    cfg = case.get("cfg") or {}
    b, tr = balancer(cfg.get("threshold", 0), cfg.get("n_jobs", 1), trace)
    t0 = time.time()
    rows, stats, err = pipeline.run(b, case["inputs"], batch_size=cfg.get("batch_size"),
                                    tracer=tr)
    return {
        "rows": rows, "stats": stats, "err": err,
        "batches": list(tr.batches) if tr else [],
        "missing_hooks": list(tr.missing) if tr else [],
        "wall": time.time() - t0,
    }


def raw_of(inp):
    return inp if isinstance(inp, str) else inp.get("reaction")


def aligned(case, out):
    """rows can only be attributed to inputs when the count matches (C05 is the
    property about the count itself)"""
    rows = out["rows"]
    return rows is not None and len(rows) == len(case["inputs"])


def stage_where(out, pos, pred):
    """first stage after which pred(reaction_text, solved) holds for the row at
    position pos of its batch -- localisation only, never the verdict"""
    # find batch + local index
    n = 0
    for b in out["batches"]:
        k = len(b["inputs"])
        if pos < n + k:
            local = str(pos - n)
            for name, snap in b["stages"]:
                for rid, rx, solved, by, issue in snap:
                    if rid == local and pred(rx, solved):
                        return name
            return None
        n += k
    return None


def edit_sig(out, pos, input_reaction):
    n = 0
    for b in out["batches"]:
        k = len(b["inputs"])
        if pos < n + k:
            return pipeline.edit_signature(b, str(pos - n), input_reaction)
        n += k
    return ()


def corpus_cases(rng, n_reactions, per_case, cfgs, tag="corpus"):
    from vgen import corpus
    rows = corpus.stratified_sample(rng, n_reactions)
    cases = []
    i = 0
    k = 0
    while i < len(rows):
        chunk = rows[i:i + per_case]
        i += per_case
        cases.append({
            "tag": "%s_%d" % (tag, k),
            "inputs": [r["reaction"] for r in chunk],
            "ids": [r["id"] for r in chunk],
            "cfg": cfgs[k % len(cfgs)],
        })
        k += 1
    return cases


def gen_cases(pairs, per_case, cfgs, tag):
    cases = []
    for k, i in enumerate(range(0, len(pairs), per_case)):
        chunk = pairs[i:i + per_case]
        cases.append({
            "tag": "%s_%d" % (tag, k),
            "inputs": [rx for _, rx in chunk],
            "ids": [t for t, _ in chunk],
            "cfg": cfgs[k % len(cfgs)],
        })
    return cases


def spread(cases, nshards):
    """round-robin cases over shards (so each shard gets a mix of kinds)"""
    shards = [[] for _ in range(nshards)]
    for i, c in enumerate(cases):
        shards[i % nshards].append(c)
    return [{"cases": s} for s in shards if s]
