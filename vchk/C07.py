"""C07 - element, hydrogen and charge accounting is exact; comparison verdicts,
difference formulas and carbon labels agree with the true compositions."""
import itertools
from collections import Counter

from vchk import common
from vmon import oracle
from vgen import corpus, molgen

RULE = ("real RSMIDecomposer.decompose / RSMIComparator.compare_dicts / diff_dicts / CheckCarbonBalance."
        "process_reaction / is_carbon_balanced called on: distinct corpus molecules, a periodic-table sweep "
        "(Z=1..118 as atom/ion/hydride/isotope), explicit-H spellings, random mixtures; exhaustive pairs of "
        "composition vectors over 4 elements x counts 0..2 x charge -2..2; the decomposer contract is also "
        "evaluated on every call made inside real pipeline runs; distinct non-trivial = distinct SMILES "
        "whose composition has >= 2 keys or a charge, plus the enumerated vector pairs")
ASSUMPTIONS = ["true composition = RDKit GetTotalNumHs + periodic table symbol + formal charges",
               "domain: valid, closed-shell, no dummy atoms (counted otherwise)"]
TIMEOUT = {"quick": 600, "thorough": 2400}


def plan(tier, seed):
    q = tier == "quick"
    mols = corpus.molecules()
    rng = common.rng(seed, "C07")
    if q:
        mols = rng.sample(mols, 2500)
    shards = [{"mols": c} for c in common.stripe(mols, 8 if q else 24)]
    shards.append({"sweep": True})
    shards.append({"mixtures": 600 if q else 6000})
    shards += [{"pairs": [i, 4]} for i in range(4)]
    shards.append({"carbon": 600 if q else 5032})
    shards.append({"pipeline": 60 if q else 400})
    shards.append({"data_decomposer": 200 if q else 1500})
    return shards


def check_decompose(s, res, fn, where="direct"):
    if not oracle.in_domain_smiles(s):
        res.count("out_of_domain")
        return None
    res.ev()
    res.count("decompose_evaluated:" + where)
    try:
        got = fn(s)
    except Exception as e:  # noqa
        res.viol("decompose_raised", case={"smiles": s}, error=repr(e)[:200], where=where)
        return None
    want, q = oracle.comp(s)
    gq = got.get("Q", 0)
    gc = {k: v for k, v in got.items() if k != "Q" and v != 0}
    if len(want) >= 2 or q:
        res.case(s)
    if gc != dict(want) or gq != q:
        unknown = sorted(k for k in want if k not in gc)
        res.viol("composition_wrong", case={"smiles": s}, got=got, want=dict(want), want_charge=q,
                 missing_symbols=unknown, where=where)
    return got


def truth(r, p):
    """what the verdict may be, from the true vectors"""
    re_ = {k: v for k, v in r.items() if k != "Q"}
    pe = {k: v for k, v in p.items() if k != "Q"}
    keys = set(re_) | set(pe)
    ge = all(re_.get(k, 0) >= pe.get(k, 0) for k in keys)
    le = all(re_.get(k, 0) <= pe.get(k, 0) for k in keys)
    return ge, le


def check_compare(r, p, res, compare, diff):
    res.ev()
    v = compare(dict(r), dict(p))
    d = diff(dict(r), dict(p))
    ge, le = truth(r, p)
    same = r == p
    w = dict(case={"reactant": r, "product": p}, verdict=v, diff=d)
    if (v == "Balance") != same:
        res.viol("verdict_balance_wrong", **w)
    elif v == "Products" and not (ge and not same):
        res.viol("verdict_products_but_not_dominated", **w)
    elif v == "Reactants" and not (le and not same):
        res.viol("verdict_reactants_but_not_dominated", **w)
    elif v not in ("Balance", "Products", "Reactants", "Both"):
        res.viol("verdict_unknown_label", **w)
    elif "Q" not in r and "Q" not in p:
        want = "Balance" if same else "Products" if ge else "Reactants" if le else "Both"
        if v != want:
            res.viol("verdict_not_dominance_class", want=want, **w)
    keys = (set(r) | set(p)) - {"Q"}
    for k in keys:
        a = abs(r.get(k, 0) - p.get(k, 0))
        if d.get(k, 0) != a or (a == 0 and k in d):
            res.viol("diff_formula_wrong", element=k, **w)
            break
    if v in ("Products", "Reactants"):
        hq, lq = (r.get("Q", 0), p.get("Q", 0)) if v == "Products" else (p.get("Q", 0), r.get("Q", 0))
        if d.get("Q", 0) != hq - lq:
            res.viol("diff_charge_wrong", want=hq - lq, **w)
    elif v == "Balance" and d:
        res.viol("diff_nonempty_for_balance", **w)


def vectors(n_elem):
    el = ["C", "H", "O", "N"][:n_elem]
    out = []
    for counts in itertools.product(range(3), repeat=len(el)):
        for q in (-2, -1, 0, 1, 2):
            d = {e: c for e, c in zip(el, counts) if c}
            if q:
                d["Q"] = q
            out.append(d)
    return out


def work(shard, res, tier, seed):
    import warnings
    warnings.filterwarnings("ignore")
    from synrbl.SynProcessor import RSMIDecomposer, RSMIComparator, CheckCarbonBalance
    from synrbl.SynMCSImputer.utils import is_carbon_balanced
    rng = common.rng(seed, "C07w", str(sorted(shard)))
    dec = RSMIDecomposer.decompose
    if "replay" in shard:
        v = shard["replay"]
        c = v.get("case", {})
        if "smiles" in c:
            check_decompose(c["smiles"], res, dec)
        elif "reactant" in c:
            check_compare(c["reactant"], c["product"], res, RSMIComparator.compare_dicts,
                          RSMIComparator.diff_dicts)
        elif "reaction" in c:
            carbon_one(c["reaction"], res, CheckCarbonBalance, is_carbon_balanced)
            chain_one(c["reaction"], res, dec, RSMIComparator.compare_dicts, RSMIComparator.diff_dicts)
        return
    if "mols" in shard:
        for s in shard["mols"]:
            check_decompose(s, res, dec)
        res.sample({"smiles": shard["mols"][0], "decompose": dec(shard["mols"][0])})
    if "sweep" in shard:
        sw = molgen.periodic_sweep() + molgen.explicit_h_spellings()
        for s in sw:
            check_decompose(s, res, dec)
            res.add("elements", next(iter(oracle.comp(s)[0])) if False else "")
        res.count("sweep_strings", len(sw))
        els = set()
        for s in sw:
            els.update(oracle.comp(s)[0])
        res.count("sweep_elements", len(els))
        res.sets.pop("elements", None)
        res.sample({"sweep_examples": sw[::400][:6]})
    if "mixtures" in shard:
        pool = corpus.molecules() + molgen.periodic_sweep()
        pool = [m for m in pool if oracle.in_domain_smiles(m)]
        for i in range(shard["mixtures"]):
            parts = rng.sample(pool, rng.randint(2, 4))
            mix = ".".join(parts)
            whole = check_decompose(mix, res, dec, "mixture")
            if whole is None:
                continue
            tot = Counter()
            for p in parts:
                tot.update(dec(p))
            tot = {k: v for k, v in tot.items() if v != 0}
            res.ev()
            res.count("additivity_evaluated")
            if tot != {k: v for k, v in whole.items() if v != 0}:
                res.viol("decompose_not_additive", case={"smiles": mix}, whole=whole, parts_sum=tot)
    if "pairs" in shard:
        i, n = shard["pairs"]
        vs = vectors(4)
        mine = vs[i::n]
        for r in mine:
            for p in vs:
                check_compare(r, p, res, RSMIComparator.compare_dicts, RSMIComparator.diff_dicts)
                res.count("vector_pairs")
        # distinct non-trivial: count pairs through a compact key
        res.cases.update(common.h(["pair", k, i]) for k in range(len(mine)))
        res.count("vector_pairs_exhaustive_space", len(mine) * len(vs))
        res.sample({"vector_pair": [mine[7], vs[11]],
                    "verdict": RSMIComparator.compare_dicts(mine[7], vs[11])})
    if "carbon" in shard:
        rows = corpus.validation_rows()
        pick = rng.sample(rows, min(shard["carbon"], len(rows)))
        for r in pick:
            carbon_one(r["reaction"], res, CheckCarbonBalance, is_carbon_balanced)
            if r["expected"]:
                carbon_one(r["expected"], res, CheckCarbonBalance, is_carbon_balanced)
        from vgen import reactions as G
        chain = [r["reaction"] for r in pick] + [r["expected"] for r in pick if r["expected"]]
        chain += [rx for _, rx in G.ionic_balanced(rng, 80)] + [rx for _, rx in G.deletions(rng, 60)]
        chain += [rx for _, rx in G.heavy_unbalanced(rng, 30)] + [rx for _, rx in G.redox_family(rng, 30)]
        for rx in chain:
            chain_one(rx, res, dec, RSMIComparator.compare_dicts, RSMIComparator.diff_dicts)
        for _, rx in G.dot_ring_closures(rng, 60):
            carbon_one(rx, res, CheckCarbonBalance, is_carbon_balanced)
            chain_one(rx, res, dec, RSMIComparator.compare_dicts, RSMIComparator.diff_dicts)
            for side in rx.split(">>"):
                check_decompose(side, res, dec, "dot_ring_closure")
            res.count("dot_ring_closure_inputs")
        for _, rx in G.dative(rng, 60):  # '>' inside a molecule (dative bond '->')
            carbon_one(rx, res, CheckCarbonBalance, is_carbon_balanced)
            res.count("dative_bond_inputs")
        for n in (999, 1000, 1001, 1300):  # very large molecules
            carbon_one("C" * n + "O>>" + "C" * n + "OCO", res, CheckCarbonBalance, is_carbon_balanced)
            carbon_one("C" * n + "O.C=O>>" + "C" * n + "OCO", res, CheckCarbonBalance, is_carbon_balanced)
        for k in range(0, min(len(pick), 200), 20):
            atom_balance_sequence([r["reaction"] for r in pick[k:k + 20]], res, CheckCarbonBalance)
        # sides that consist of the same molecule strings with other multiplicities, in one checker instance
        fams = G.self_reaction_families(rng, 30 if tier == "quick" else 300)
        for fam in fams:
            atom_balance_sequence([rx for _, rx in fam], res, CheckCarbonBalance)
            atom_balance_sequence([rx for _, rx in fam][::-1], res, CheckCarbonBalance)
        allfam = [rx for fam in fams for _, rx in fam]
        rng.shuffle(allfam)
        atom_balance_sequence(allfam, res, CheckCarbonBalance)
        res.count("multiplicity_families", len(fams))
    if "data_decomposer" in shard:
        rows = rng.sample(corpus.validation_rows(), shard["data_decomposer"])
        for nj in (1, 4):
            data = [dict(zip(("reactants", "products"), r["reaction"].split(">>"))) for r in rows]
            rd, pd_ = RSMIDecomposer(data=data, n_jobs=nj, verbose=0).data_decomposer()
            for d, got_r, got_p in zip(data, rd, pd_):
                for s, got in ((d["reactants"], got_r), (d["products"], got_p)):
                    if not oracle.in_domain_smiles(s):
                        continue
                    check_decompose(s, res, lambda _s, g=got: g, "data_decomposer_nj%d" % nj)
    if "pipeline" in shard:
        from vchk import rowlib
        orig = RSMIDecomposer.decompose
        seen = []

        def wrapped(smiles):
            out = orig(smiles)
            seen.append((smiles, out))
            return out

        RSMIDecomposer.decompose = staticmethod(wrapped)
        try:
            cases = rowlib.corpus_cases(rng, shard["pipeline"], 10,
                                        [{"batch_size": None, "threshold": 0, "n_jobs": 1}])
            for c in cases:
                rowlib.run_case(c, trace=False)
        finally:
            RSMIDecomposer.decompose = staticmethod(orig)
        for s, out in seen:
            check_decompose(s, res, lambda _s, o=out: o, "pipeline")


def chain_one(rx, res, dec, compare, diff):
    """the real chain decompose -> compare_dicts / diff_dicts on a real reaction, judged against the verdict
    that the oracle's true compositions allow"""
    if not oracle.in_domain_rsmi(rx):
        res.count("out_of_domain")
        return
    a, b = rx.split(">>")
    (ca, qa), (cb, qb) = oracle.comp(a), oracle.comp(b)
    r = dict(ca)
    p = dict(cb)
    if qa:
        r["Q"] = qa
    if qb:
        p["Q"] = qb
    try:
        v = compare(dec(a), dec(b))
        d = diff(dec(a), dec(b))
    except Exception as e:  # noqa
        res.viol("decompose_compare_chain_raised", case={"reaction": rx}, error=repr(e)[:200])
        return
    res.ev()
    res.count("chain_evaluated")
    ge, le = truth(r, p)
    same = r == p
    w = dict(case={"reaction": rx}, verdict=v, diff=d, true_reactant=r, true_product=p)
    if (v == "Balance") != same:
        res.viol("chain_verdict_balance_wrong", **w)
    elif v == "Products" and not (ge and not same):
        res.viol("chain_verdict_products_but_not_dominated", **w)
    elif v == "Reactants" and not (le and not same):
        res.viol("chain_verdict_reactants_but_not_dominated", **w)
    elif "Q" not in r and "Q" not in p:
        want = "Balance" if same else "Products" if ge else "Reactants" if le else "Both"
        if v != want:
            res.viol("chain_verdict_not_dominance_class", want=want, **w)
    keys = (set(r) | set(p)) - {"Q"}
    for k in keys:
        x = abs(r.get(k, 0) - p.get(k, 0))
        if d.get(k, 0) != x:
            res.viol("chain_diff_formula_wrong", element=k, **w)
            break
    # a client looks counts up before comparing: asking a composition for elements it does not contain (with a
    # KeyError caught, as a plain dictionary demands) must not change the verdict
    try:
        da, db = dec(a), dec(b)
        for comp_ in (da, db):
            for k in ("N", "Q", "Zz"):
                try:
                    comp_[k]
                except KeyError:
                    pass
        v2 = compare(da, db)
        res.count("chain_after_lookups_evaluated")
        if v2 != v:
            res.viol("chain_verdict_changes_after_reading_absent_counts", verdict_after=v2, **w)
    except Exception as e:  # noqa
        res.viol("decompose_compare_chain_raised", case={"reaction": rx}, error=repr(e)[:200])
    if not same:
        res.case(["chain", rx])


def atom_balance_sequence(rxs, res, CCB):
    """the instance API (with its count cache) asked about several elements in one process, carbon last:
    every label must agree with the oracle's count of *that* element"""
    from rdkit import Chem
    rxs = [rx for rx in rxs if oracle.in_domain_rsmi(rx)]
    data = [{"r": rx} for rx in rxs]
    for sym in ("O", "N", "C", "Cl", "C"):
        got = CCB(data, rsmi_col="r", symbol=">>", atom_type=sym, n_jobs=1).check_carbon_balance()
        for rx, g in zip(rxs, got):
            a, b = rx.split(">>")

            def cnt(s):
                m = oracle.parse(s)
                return sum(1 for at in m.GetAtoms() if at.GetSymbol() == sym)
            ca, cb = cnt(a), cnt(b)
            want = "balanced" if ca == cb else "products" if ca > cb else "reactants"
            res.ev()
            res.count("atom_balance_sequence_evaluated")
            if g.get("carbon_balance_check") != want:
                res.viol("atom_balance_label_wrong", case={"reaction": rx}, atom_type=sym,
                         got=g.get("carbon_balance_check"), want=want, counts=[ca, cb])


def carbon_one(rx, res, CCB, is_cb):
    if not oracle.in_domain_rsmi(rx):
        res.count("out_of_domain")
        return
    sp = oracle.split_rsmi(rx)
    cr, cp = oracle.carbon_count(sp[0]), oracle.carbon_count(sp[1])
    want = "balanced" if cr == cp else "products" if cr > cp else "reactants"
    res.ev(2)
    res.count("carbon_evaluated")
    got = CCB.process_reaction({"r": rx}, "r", ">>", "C", {}).get("carbon_balance_check")
    if got != want:
        res.viol("carbon_label_wrong", case={"reaction": rx}, got=got, want=want, carbons=[cr, cp])
    try:
        g2 = is_cb(rx)
    except Exception as e:  # noqa
        g2 = repr(e)
    if g2 != (cr == cp):
        res.viol("is_carbon_balanced_wrong", case={"reaction": rx}, got=g2, carbons=[cr, cp])
    if cr != cp:
        res.case(["carbon", rx])


def conclude_args(res, tier, seed):
    total = 405 * 405
    ex = res.counters.get("vector_pairs", 0) == total
    return {"need": {"decompose_evaluated:direct": 1000, "decompose_evaluated:pipeline": 100,
                     "decompose_evaluated:mixture": 100, "additivity_evaluated": 100,
                     "vector_pairs": total, "carbon_evaluated": 300, "sweep_elements": 100, "atom_balance_sequence_evaluated": 300, "chain_evaluated": 500},
            "min_cases": 500,
            "extra": {"exhaustive_subspace": "composition-vector pairs over {C,H,O,N} x counts 0..2 x charge "
                      "-2..2 (405^2 = %d) enumerated completely: %s; the rest of the run is sampled" % (total, ex)}}
