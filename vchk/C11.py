"""C11 - MCS-stage timeouts and failures are contained to the affected reaction
(fault enumeration at the real failure sites, run-vs-fault-free comparison)."""
import itertools
import time

from vchk import common, rowlib
from vmon import oracle, pipeline
from vmon.faults import Injector
from vgen import corpus
from vgen import reactions as G

RULE = ("batches of 6-9 mixed fast reactions (3-5 reaching the MCS stage, incl. one without any common "
        "substructure); fault plans: every single (reaction, search condition) job x {delay just beyond the thread-wait "
        "budget, raise}, all three conditions of one reaction, pairs / random subsets of jobs, forced-canceled inner "
        "FindMCS calls, fragment-analysis jobs x {2 s+ delay, raise}, line-level delays before / between the two "
        "record writes of the zombie thread; oracle vs the fault-free run of the same batch: no row lost, reactions "
        "without injected or logged real fault identical, affected reactions solved+balanced or declined unchanged "
        "with a reason; rows re-read after all zombies finished; distinct non-trivial = distinct fault plans with "
        ">= 1 fault")
ASSUMPTIONS = ["the thread-wait budget of single_mcs_safe is lowered through its default argument (0.5 s instead of 2 s); "
               "real timeouts / cancels that the injector logs are treated as faults of that reaction",
               "faults are injected inside fit / FindMCS / find_missing_parts_pairs, never at the boundary of "
               "single_mcs itself (which cannot raise)"]
TIMEOUT = {"quick": 1500, "thorough": 3400}
COLS = ("reaction", "solved", "solved_by", "confidence", "rules", "issue")
NOMATCH = ["[Na+].[Cl-]>>O", "CCl>>N", "CS>>[Na+]"]
BUDGET = 0.5


def plan(tier, seed):
    q = tier == "quick"
    n = 10 if q else 44
    shards = [{"salt": i, "random_plans": 4 if q else 16, "pairs": 3 if q else 30,
             "frag_delay": (i % 4 == 0) if q else True, "long_hangs": (i % 3 == 1) if q else (i % 2 == 0), "extra_delays": [0.8] if q else [0.2, 0.5, 1.0], "n_extra": 2 if q else 4,
             "load": (not q) and i % 6 == 5} for i in range(n)]
    # one batch with a non-default id column (public constructor argument) ...
    shards[min(7, n - 1)]["id_col"] = "rid"
    # ... and batches at the *real* thread-wait budget (2 s) in which the first jobs of the batch all time out, so
    # that more than 10 s pass before any search has produced a result (code that only runs in slow batches)
    for i in range(1 if q else 3):
        shards.append({"salt": 100 + i, "real_budget": True, "load": False})
    for sh in shards:
        if sh["load"]:
            sh["exclusive"] = True  # burner processes must not disturb the timing of the other shards
    return [sh for sh in shards if not sh["load"]] + [sh for sh in shards if sh["load"]]


machine_busy = rowlib.machine_busy


def view(r):
    return {k: r.get(k) for k in COLS}


def choose_batch(rng, b, res):
    rows = corpus.stratified_sample(rng, 60)
    cands = [r["reaction"] for r in rows] + [rx for _, rx in G.deletions(rng, 4)] + \
        [rx for _, rx in G.redox_family(rng, 3)]
    rng.shuffle(cands)
    mcs, other = [], []
    for rx in cands:
        if len(mcs) >= 4 and len(other) >= 3:
            break
        if not oracle.in_domain_rsmi(rx):
            continue
        t0 = time.process_time()  # CPU time: the selection must not depend on machine load
        out, _, err = pipeline.run(b, [rx])
        dt = time.process_time() - t0
        if err or not out or dt > 0.45:
            continue
        if out[0].get("solved_by") == "mcs-based" and len(mcs) < 4:
            mcs.append(rx)
        elif out[0].get("solved_by") != "mcs-based" and len(other) < 3:
            other.append(rx)
    batch = other[:1] + mcs[:2] + [rng.choice(NOMATCH)] + other[1:2] + mcs[2:] + other[2:]
    return batch


def run_plan(b, inj, batch, fplan, base, mcs_ids, res, tag, base_dt=None, confirm=False, loaded=False):
    inj.set_plan(fplan)
    rows, stats, err = pipeline.run(b, batch)
    log = list(inj.log)
    # let every zombie finish, then look at the returned rows again
    time.sleep(BUDGET + 0.3 + max([0] + [f[1] for f in (fplan.get("fit") or {}).values() if f[0] == "delay"])
               + sum((fplan.get("lines") or {}).values()))
    late = list(inj.log)[len(log):]
    res.ev()
    res.count("plans_run")
    nf = len(fplan.get("fit") or {}) + len(fplan.get("cancel") or {}) + len(fplan.get("frag") or {}) + \
        len(fplan.get("lines") or {}) + len(fplan.get("inner_raise") or {})
    if nf:
        res.case([batch, fplan])
    res.add("plan_kinds", tag)
    w = dict(batch=batch, plan=fplan)
    if err or rows is None or len(rows) != len(batch):
        res.viol("rows_lost_under_fault", error=err, n_out=None if rows is None else len(rows), **w)
        return
    affected = set()
    for key in (fplan.get("fit") or {}):
        affected.add(key.split("/")[0])
    for key in (fplan.get("cancel") or {}):
        affected.add(key.split("/")[0])
    for key in (fplan.get("inner_raise") or {}):
        affected.add(key.split("/")[0])
    for key in (fplan.get("frag") or {}):
        affected.add(str(key))
    if fplan.get("lines"):
        for key in (fplan.get("line_jobs") or []):
            affected.add(key.split("/")[0])
    real = set()
    for ev in log + late:
        if ev[0] in ("search_timeout", "findmcs_really_canceled", "search_slow"):
            real.add(str(ev[1]))
    # a timeout on a job that nobody touched and that needed < budget/5 in the fault-free run cannot be
    # spontaneous on an unloaded machine: it was induced by somebody else's fault (containment failure).
    # Confirmed by repeating the plan once; not judged in the deliberately loaded shards.
    if not loaded and machine_busy():
        loaded = True  # somebody else is loading the machine: spontaneous timeouts are to be expected
        res.count("plans_under_external_load")
    if base_dt is not None and not loaded:
        suspects = sorted({str(ev[1]) for ev in log if ev[0] == "search_timeout"
                           and str(ev[1]) not in affected
                           and base_dt.get((str(ev[1]), ev[2]), 1e9) < BUDGET / 5})
        if suspects and int(confirm) < 2:  # must show up three times in a row, on a machine that is not busy
            res.count("induced_timeout_suspects")
            return run_plan(b, inj, batch, fplan, base, mcs_ids, res, tag, base_dt, confirm=int(confirm) + 1)
        if suspects and int(confirm) >= 2:
            res.viol("timeout_induced_on_unaffected_reaction", case={"reaction": batch[int(suspects[0])]},
                     unaffected_reactions_timed_out=suspects,
                     events=[list(e) for e in log if e[0] in ("search_timeout", "fit")][:40], **w)
            return
    if real - affected:
        res.count("real_timing_events(treated as faults)", len(real - affected))
    affected |= real
    if any(e[0] == "line_delay" for e in log + late):
        res.count("zombie_line_delays_observed")
    if any(e[0] == "search_timeout" for e in log):
        res.count("timeouts_observed")
    outcome = []
    for i, (r0, r) in enumerate(zip(base, rows)):
        rid = str(i)
        if rid in affected:
            res.count("affected_rows_judged")
            ok_solved = r.get("solved") is True and oracle.balanced(r.get("reaction")) is True
            ok_declined = (r.get("solved") is not True and r.get("reaction") == r.get("input_reaction")
                           and isinstance(r.get("issue"), str) and r["issue"].strip() != "")
            outcome.append("S" if ok_solved else "D" if ok_declined else "X")
            if not (ok_solved or ok_declined):
                res.viol("affected_reaction_neither_solved_balanced_nor_declined_unchanged",
                         case={"reaction": batch[i]}, row=view(r), row_index=i, **w)
        else:
            res.count("unaffected_rows_compared")
            outcome.append("=" if view(r0) == view(r) else "!")
            if view(r0) != view(r):
                res.viol("fault_leaked_to_unaffected_reaction", case={"reaction": batch[i]},
                         differs_in=[k for k in COLS if r0.get(k) != r.get(k)], fault_free=view(r0),
                         with_fault=view(r), row_index=i, events=[list(e) for e in log[:40]], **w)
    res.add("outcome_vectors", tag + ":" + "".join(outcome))
    if fplan.get("rerun_clean") and not confirm:
        # state must not persist: the same batch right afterwards, without any fault, equals the fault-free run
        inj.set_plan({})
        rows3, _, err3 = pipeline.run(b, batch)
        res.ev()
        res.count("clean_reruns_after_hangs")
        real3 = {str(e[1]) for e in inj.log if e[0] in ("search_timeout", "findmcs_really_canceled")}
        if err3 or rows3 is None or len(rows3) != len(batch):
            res.viol("rows_lost_in_clean_run_after_faults", **w)
        else:
            for i, (r0, r) in enumerate(zip(base, rows3)):
                if str(i) in real3 or loaded:
                    continue
                if view(r0) != view(r):
                    res.viol("earlier_fault_leaked_into_later_clean_run", case={"reaction": batch[i]},
                             fault_free=view(r0), later_clean_run=view(r), row_index=i, **w)
                    break
        time.sleep(13.0)  # let the abandoned threads finish before the next plan
    # re-read after the zombies: returned rows must not have changed under our feet
    rows2 = [view(r) for r in rows]
    if any(a != view(b_) for a, b_ in zip(rows2, rows)):
        res.viol("returned_rows_changed_after_return", **w)


def work(shard, res, tier, seed):
    import warnings
    warnings.filterwarnings("ignore")
    global BUDGET
    rng = common.rng(seed, "C11w", shard.get("salt"))
    kw = {"id_col": shard["id_col"]} if shard.get("id_col") else {}
    b, _ = rowlib.balancer(0, 1, trace=False, **kw)
    if shard.get("id_col"):
        res.count("batches_with_non_default_id_col")
    if shard.get("real_budget"):
        BUDGET = 2.0
    burners = []
    if "replay" in shard:
        v = shard["replay"]
        batch, plans = v["batch"], [("replay", v["plan"])]
    else:
        batch = choose_batch(rng, b, res)
        plans = None
    inj = Injector(budget=BUDGET)
    inj.id_key = shard.get("id_col") or "id"
    inj.install()
    if not inj.lines_ok:
        res.count("line_level_sites_not_found")
    try:
        inj.set_plan({})
        base, _, err = pipeline.run(b, batch)
        time.sleep(0.2)
        if err or base is None or len(base) != len(batch):
            res.incon("fault-free run of the batch failed")
            return
        if any(e[0] in ("search_timeout", "findmcs_really_canceled") for e in inj.log):
            res.count("fault_free_run_had_real_timing_events")
        jobs = sorted({(e[1], e[2]) for e in inj.log if e[0] == "fit"})
        base_dt = {(str(e[1]), e[2]): e[3] for e in inj.log if e[0] == "search_done"}
        frag_ids = sorted({str(e[1]) for e in inj.log if e[0] == "frag" and e[1] is not None})
        mcs_ids = sorted({j[0] for j in jobs})
        res.count("search_jobs_in_batches", len(jobs))
        res.count("fragment_jobs_in_batches", len(frag_ids))
        if plans is None and shard.get("real_budget"):
            keys = ["%s/%d" % j for j in jobs]
            by_r = sorted({k.split("/")[0] for k in keys}, key=int)
            # job order of ensemble_mcs: condition-major -> the first six jobs are the first condition of the first
            # reactions; all jobs of the first two reactions as a second plan
            first_cond = sorted(keys, key=lambda k: (int(k.split("/")[1]), int(k.split("/")[0])))[:6]
            plans = [("leading_timeouts_real_budget", {"fit": {k: ["delay", 0.05] for k in first_cond}}),
                     ("first_reactions_all_conditions_real_budget",
                      {"fit": {k: ["delay", 0.05] for k in keys if k.split("/")[0] in by_r[:2]}})]
            res.count("real_budget_plans", len(plans))
        if plans is None:
            plans = build_plans(rng, jobs, frag_ids, shard)
            if shard.get("load"):
                import subprocess
                import sys
                burners = [subprocess.Popen([sys.executable, "-c", "while True: pass"]) for _ in range(16)]
        for tag, fplan in plans:
            run_plan(b, inj, batch, fplan, base, mcs_ids, res, tag, base_dt, loaded=bool(burners))
        if len(res.samples) < 2:
            res.sample({"batch": batch, "search_jobs": ["%s/%d" % j for j in jobs], "example_plan": plans[0][1]})
    finally:
        for p in burners:
            p.kill()
        inj.uninstall()


def build_plans(rng, jobs, frag_ids, shard):
    keys = ["%s/%d" % j for j in jobs]
    plans = []
    d0 = 0.05
    for k in keys:  # every single job x {delay, raise}
        plans.append(("single_delay", {"fit": {k: ["delay", d0]}}))
        plans.append(("single_raise", {"fit": {k: ["raise", 0]}}))
    for rid in sorted({k.split("/")[0] for k in keys}):  # all conditions of one reaction
        mine = [k for k in keys if k.startswith(rid + "/")]
        plans.append(("all_conditions_raise", {"fit": {k: ["raise", 0] for k in mine}}))
        plans.append(("all_conditions_delay", {"fit": {k: ["delay", d0] for k in mine}}))
        plans.append(("cancel_all_inner", {"cancel": {k: "all" for k in mine}}))
        plans.append(("cancel_first_inner", {"cancel": {mine[0]: [0]}}))
        plans.append(("cancel_second_pass", {"cancel": {k: [1, 2, 3] for k in mine}}))
        plans.append(("inner_step_raise_first", {"inner_raise": {k: [0] for k in mine}}))
        plans.append(("inner_step_raise_later", {"inner_raise": {mine[0]: [1], mine[-1]: "all"}}))
    pairs = list(itertools.combinations(keys, 2))
    for a, b_ in rng.sample(pairs, min(shard["pairs"], len(pairs))):
        plans.append(("pair", {"fit": {a: [rng.choice(["delay", "raise"]), d0],
                                       b_: [rng.choice(["delay", "raise"]), d0]}}))
    for _ in range(shard["random_plans"]):
        sub = rng.sample(keys, rng.randint(1, max(1, len(keys) // 2)))
        fp = {"fit": {k: [rng.choice(["delay", "raise"]), rng.choice([d0, 0.2])] for k in sub}}
        if frag_ids and rng.random() < 0.5:
            fp["frag"] = {rng.choice(frag_ids): ["raise", 0]}
        if rng.random() < 0.4:
            fp["cancel"] = {rng.choice(keys): [rng.randint(0, 2)]}
        plans.append(("random_subset", fp))
    for rid in frag_ids:
        plans.append(("frag_raise", {"frag": {rid: ["raise", 0]}}))
    if shard["frag_delay"] and frag_ids:
        plans.append(("frag_delay", {"frag": {rng.choice(frag_ids): ["delay", 0.1]}}))
        if len(frag_ids) > 1 and shard.get("n_extra", 4) >= 4:
            plans.append(("frag_delay_all", {"frag": {rid: ["delay", 0.1] for rid in frag_ids}}))
    # zombie thread writes the record late: delay just beyond the budget + line-level delays
    for k in rng.sample(keys, min(len(keys), 3 if shard.get("n_extra", 4) < 4 else 6)):
        for lines in ({"mcs_results": 0.4}, {"sorted_reactants": 0.4}, {"mcs_results": 0.3, "sorted_reactants": 0.6}):
            plans.append(("zombie_half_written", {"fit": {k: ["delay", d0]}, "lines": lines, "line_jobs": [k]}))
    if frag_ids and shard.get("long_hangs"):
        # every fragment analysis hangs long after its 2 s wait expired; the batch is then run again at once,
        # fault-free, while the abandoned threads are still alive
        plans.append(("frag_hang_all_then_rerun", {"frag": {rid: ["delay", 13.0] for rid in frag_ids},
                                                   "rerun_clean": True}))
    for extra in shard["extra_delays"]:
        for k in rng.sample(keys, min(len(keys), shard.get("n_extra", 4))):
            plans.append(("single_delay_long", {"fit": {k: ["delay", extra]}}))
            plans.append(("zombie_late", {"fit": {k: ["delay", d0]}, "lines": {"sorted_reactants": extra},
                          "line_jobs": [k]}))
    return plans


def conclude_args(res, tier, seed):
    if res.counters.get("line_level_sites_not_found"):
        # the two record writes of the search thread were not found by the AST search (another implementation of
        # single_mcs): the line-level delays cannot be placed; every other fault site still decides
        return {"need": {"plans_run": 150, "affected_rows_judged": 150, "unaffected_rows_compared": 500,
                         "timeouts_observed": 30}, "min_cases": 100,
                "extra": {"line_level_delays": "sites not found in this implementation; not placed"}}
    return {"need": {"plans_run": 150, "affected_rows_judged": 150, "unaffected_rows_compared": 500,
                     "timeouts_observed": 30, "zombie_line_delays_observed": 10, "clean_reruns_after_hangs": 2,
                     "batches_with_non_default_id_col": 1, "real_budget_plans": 2},
            "min_cases": 100,
            "extra": {"exhaustive_subspace": "per batch: every single (reaction, condition) search job x {delay, raise}, "
                      "every reaction's three conditions together, every fragment-analysis job x raise are enumerated; "
                      "pairs and larger subsets are sampled"}}
