"""C15 - atom-map removal keeps every molecule chemically identical and no map
number survives; rebalancing outputs never contain atom-map numbers."""
import re

from rdkit import Chem

from vchk import common
from vmon import oracle
from vgen import corpus, molgen

RULE = ("real remove_atom_mapping on: every mapped corpus reaction side, a periodic-table bracket-atom generator "
        "(element x charge x H count x isotope x chirality x map, embedded in small molecules and aromatic rings), "
        "RDKit-emitted re-spellings (allHsExplicit, allBondsExplicit, kekule, random order) of corpus molecules "
        "with random map assignments; oracle = RDKit-API map clearing + canonical fragment multisets; plus rows of "
        "real pipeline runs; distinct non-trivial = distinct strings containing a bracket atom")
ASSUMPTIONS = ["domain: valid, closed-shell molecules without dummy atoms (others are counted, not judged)",
               "'same molecule' = same canonical SMILES (stereo, isotopes, charges kept) after clearing maps via the API"]
TIMEOUT = {"quick": 600, "thorough": 2400}
MAPRX = re.compile(r":\d+\]")


def plan(tier, seed):
    q = tier == "quick"
    rng = common.rng(seed, "C15")
    rows = corpus.validation_rows()
    pick = rows if not q else rng.sample(rows, 700)
    shards = [{"rx": [r["reaction"] for r in c]} for c in common.stripe(pick, 6 if q else 16)]
    shards += [{"brackets": {"n": 1200 if q else 12000, "salt": i}} for i in range(2 if q else 6)]
    mols = corpus.molecules()
    mp = rng.sample(mols, 500 if q else 6000)
    shards += [{"respell": c} for c in common.stripe(mp, 4 if q else 12)]
    shards.append({"pipeline": 60 if q else 500})
    return shards


def check_one(s, res, fn, where):
    """s: a SMILES (one side / molecule / mixture)"""
    if not oracle.in_domain_smiles(s):
        res.count("out_of_domain")
        return
    res.ev()
    res.count("evaluated:" + where)
    if "[" in s:
        res.case(s)
    try:
        out = fn(s)
    except Exception as e:  # noqa
        res.viol("remove_atom_mapping_raised", case={"smiles": s}, error=repr(e)[:200], where=where)
        return
    want = oracle.frags(s)
    m = oracle.parse(out)
    if m is None:
        res.viol("demapped_output_unparsable", case={"smiles": s}, output=out, where=where)
        return
    if any(a.GetAtomMapNum() for a in m.GetAtoms()) or MAPRX.search(out):
        res.viol("map_number_survives", case={"smiles": s}, output=out, where=where)
        return
    got = oracle.frags_mol(m)
    if got != want and oracle.loose_signature(m) == oracle.loose_signature(oracle.parse(s)) \
            and oracle.comp(s) == oracle.comp_mol(m):
        # same atoms, hydrogens, connectivity and charge: RDKit merely normalised one spelling differently
        res.count("equal_up_to_rdkit_charge_separation")
        return
    if got != want:
        wc, gc = oracle.comp(s), oracle.comp_mol(m)
        res.viol("molecule_changed_by_map_removal", case={"smiles": s}, output=out,
                 want=dict(oracle.msub(want, got)), got=dict(oracle.msub(got, want)),
                 want_comp=[dict(wc[0]), wc[1]], got_comp=[dict(gc[0]), gc[1]], where=where)


def work(shard, res, tier, seed):
    import warnings
    warnings.filterwarnings("ignore")
    from synrbl.SynUtils.chem_utils import remove_atom_mapping
    fn = remove_atom_mapping
    rng = common.rng(seed, "C15w", str(shard.get("brackets")), str(len(shard.get("respell", []))))
    if "replay" in shard:
        c = shard["replay"].get("case", {})
        if "smiles" in c:
            check_one(c["smiles"], res, fn, "replay")
        return
    if "rx" in shard:
        for rx in shard["rx"]:
            for side in rx.split(">>"):
                check_one(side, res, fn, "corpus")
            # whole reaction through the same function (as preprocess does)
            out = fn(rx)
            res.ev()
            a, b = oracle.rfrags(rx), oracle.rfrags(out)
            if oracle.in_domain_rsmi(rx) and (b is None or a != b):
                res.viol("molecule_changed_by_map_removal", case={"smiles": rx}, output=out, where="corpus_rx")
        # very long strings: several mapped sides joined into one mixture (hundreds of map numbers)
        sides = [x for rx in shard["rx"] for x in rx.split(">>") if x]
        for k in range(0, min(len(sides), 400), 40):
            big = ".".join(sides[k:k + 40])
            check_one(big, res, fn, "long_mixture")
            res.count("max_maps_in_one_string", 0)
            res.counters["max_maps_in_one_string"] = max(res.counters["max_maps_in_one_string"], big.count(":"))
        res.sample({"in": shard["rx"][0][:120], "out": fn(shard["rx"][0])[:120]})
    if "brackets" in shard:
        forms = molgen.bracket_forms(rng, shard["brackets"]["n"])
        for s in forms:
            check_one(s, res, fn, "brackets")
        res.sample({"bracket_forms": forms[:8]})
        els = set()
        for s in forms:
            els.update(oracle.comp(s)[0])
        for e in els:
            res.add("elements", e)
    if "respell" in shard:
        for s in shard["respell"]:
            m = oracle.parse(s)
            if m is None:
                continue
            for v in molgen.respell(m, rng, k=4):
                check_one(v, res, fn, "respell")
                if ":" in v.replace(":%d" % 0, "") and re.search(r"[a-z]:\d*[a-z(]|:\d", v):
                    pass
        # explicit aromatic bonds with ring closures after the bond symbol
        for v in ["c:1:c:c:c:c:c:1", "c:1ccccc:1", "[cH:1]:1:[cH:2]:[cH:3]:[cH:4]:[cH:5]:[cH:6]:1",
                  "c1cc:2ccccc:2cc1", "C-1CCCCC-1", "C=1CCCCC=1", "c:1cc[nH:7]c:1", "n:1ccccc:1",
                  "C:1CC:1" if False else "c:1:c:c:[n:3]:c:c:1"]:
            check_one(v, res, fn, "explicit_aromatic_bonds")
    if "pipeline" in shard:
        from vchk import rowlib
        cases = rowlib.corpus_cases(rng, shard["pipeline"], 10,
                                    [{"batch_size": None, "threshold": 0, "n_jobs": 1}])
        import shutil
        import tempfile
        from vmon import pipeline
        # valid mapped reactions with a ring-closure bond written across a dot / with isotope labels
        cases.append({"tag": "dotclosure", "cfg": {"batch_size": None, "threshold": 0, "n_jobs": 1}, "ids": [],
                      "inputs": ["[CH3:1][CH2:2]9.[OH:3]9.[CH3:4][C:5](=[O:6])[Cl:7]>>[CH3:1][CH2:2][O:3][C:5]([CH3:4])=[O:6]",
                                 "[CH3:1][C:2](=[O:3])[O:4]1.[CH2:5]1[CH3:6]>>[CH3:1][C:2](=[O:3])[OH:4]",
                                 "[CH2:1]%11[CH2:2][CH2:3][CH3:4].[OH:5]%11>>[CH2:1]=[CH:2][CH2:3][CH3:4].[OH2:5]",
                                 "[13CH3:1][OH:2].[CH3:3][C:4](=[O:5])[Cl:6]>>[13CH3:1][O:2][C:4]([CH3:3])=[O:5]",
                                 "[CH3:1][C:2]1=[O:3].[O:4]1[CH3:5]>>[CH3:1][C:2](=[O:3])[OH:7]"]})
        outs = []
        for k, c in enumerate(cases):
            outs.append(rowlib.run_case(c, trace=False))
            if k < 3:
                # the same inputs through a default-configuration run that shares its cache directory with an
                # earlier run which was asked to keep the maps (remove_aam switched off on that object)
                tmp = tempfile.mkdtemp(prefix="verif_c15c_")
                try:
                    b1 = pipeline.make_balancer(n_jobs=1, cache=True, cache_dir=tmp)
                    b1.remove_aam = False
                    pipeline.run(b1, c["inputs"])
                    b2 = pipeline.make_balancer(n_jobs=1, cache=True, cache_dir=tmp)
                    rows2, _, _ = pipeline.run(b2, c["inputs"])
                    outs.append({"rows": rows2})
                    res.count("default_runs_after_a_keep_maps_run_on_the_same_cache_dir")
                finally:
                    shutil.rmtree(tmp, ignore_errors=True)
        # (a) rows of a keep-the-maps run fed back into a default run (dictionaries that already carry the tool's
        #     columns, with maps in them); (b) a stage fails for one batch of a mapped input: whatever rows come back
        #     must be map-free
        for k, c in enumerate(cases[:3]):
            bk = pipeline.make_balancer(n_jobs=1)
            bk.remove_aam = False
            rows1, _, _ = pipeline.run(bk, c["inputs"])
            if rows1:
                b3 = pipeline.make_balancer(n_jobs=1)
                rows3, _, _ = pipeline.run(b3, [dict(r) for r in rows1])
                outs.append({"rows": rows3})
                res.count("keep_maps_rows_fed_back_into_default_run")
            b4 = pipeline.make_balancer(n_jobs=1)
            orig_find = b4.mcs_search.find
            calls = {"n": 0}

            def faulty_find(reactions, _o=orig_find, _c=calls):
                _c["n"] += 1
                if _c["n"] % 2 == 0:
                    raise RuntimeError("injected failure in the MCS search stage")
                return _o(reactions)

            b4.mcs_search.find = faulty_find
            rows4, _, _ = pipeline.run(b4, c["inputs"], batch_size=2)
            outs.append({"rows": rows4})
            res.count("runs_with_a_failing_stage")
        for out in outs:
            for row in out["rows"] or []:
                for col in ("reaction", "input_reaction"):
                    t = row.get(col)
                    res.ev()
                    res.count("pipeline_cells")
                    f = oracle.split_rsmi(t)
                    mapped = MAPRX.search(t or "") is not None
                    if f:
                        for side in f:
                            m = oracle.parse(side)
                            if m is not None and any(a.GetAtomMapNum() for a in m.GetAtoms()):
                                mapped = True
                    if mapped:
                        res.viol("pipeline_output_contains_atom_map", case={"smiles": t}, column=col,
                                 where="pipeline")


def conclude_args(res, tier, seed):
    return {"need": {"evaluated:corpus": 500, "evaluated:brackets": 1000, "evaluated:respell": 500,
                     "pipeline_cells": 50, "default_runs_after_a_keep_maps_run_on_the_same_cache_dir": 2, "keep_maps_rows_fed_back_into_default_run": 2,
                     "runs_with_a_failing_stage": 2, "evaluated:explicit_aromatic_bonds": 5, "evaluated:long_mixture": 10}, "min_cases": 500}
