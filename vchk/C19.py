"""C19 - the rule database stays consistent under any sequence of edits."""
import contextlib
import copy
import io
import itertools
import json

from vchk import common
from vmon import oracle
from vgen import reactions as G

RULE = ("edit histories on the real RuleImputeManager (icontract class invariant evaluated after every public "
        "method + comparison with a sequential reference model after every operation): exhaustive histories up "
        "to length 4 (quick) / 5 (thorough) over an alphabet of valid (incl. charged, heavy-element, isotope), "
        "invalid, duplicate-by-formula, duplicate-by-SMILES adds, removes of present/absent formulas and bulk adds, "
        "from the empty database; every element Z = 1..118 in seven forms added to / removed from / re-added to the "
        "empty and a shipped database; random length-30 histories from empty and from both shipped databases; distinct "
        "non-trivial = distinct histories with >= 1 accepted and >= 1 rejected operation")
ASSUMPTIONS = ["'share a SMILES' is string identity, as the property states it",
               "records that already share a formula/SMILES in the initial state of a shipped file are reported once "
               "as an initial-state finding and exempt from the pairwise-distinct invariant afterwards"]
TIMEOUT = {"quick": 900, "thorough": 3000}

VALID = [("H2O", "O"), ("EtOH", "CCO"), ("Na+", "[Na+]"), ("SO4^2-", "[O-]S(=O)(=O)[O-]"), ("U", "[U]"),
         ("D2O", "[2H]O[2H]")]
INVALID = [("bad1", "C(("), ("bad2", "Xx")]
# strings that are SMILES syntax but not molecules (valence / aromaticity), and entries whose *formula* is the
# SMILES of another entry (so that a removal by formula can be confused with a removal by SMILES)
IMPOSSIBLE = [("pentavalentC", "C(C)(C)(C)(C)C"), ("badarom", "c1cccc1"), ("F3", "F(F)F"), ("N5", "N(C)(C)(C)C")]
ALIAS_OPS = [("add", "CH4O", "CO"), ("add", "CO", "[C-]#[O+]"), ("add", "H2O", "O"), ("add", "O", "[O]"),
             ("add", "H3N", "N"), ("add", "N", "[N]"), ("rm", "CO"), ("rm", "O"), ("rm", "N"), ("rm", "H2O"),
             ("add", "pentavalentC", "C(C)(C)(C)(C)C"), ("bulk", [("badarom", "c1cccc1"), ("EtOH", "CCO"), ("F3", "F(F)F")])]
DUPF = [("H2O", "OO"), ("EtOH", "COC")]
DUPS = [("water", "O"), ("ethanol", "CCO")]
OPS = ([("add", f, s) for f, s in VALID + INVALID + DUPF + DUPS]
       + [("rm", "H2O"), ("rm", "EtOH"), ("rm", "absent")]
       + [("bulk", [VALID[0], INVALID[0], DUPS[0]]), ("bulk", []), ("bulk", [VALID[2], VALID[2], DUPF[1]])])

_comp = {}


def comp(s):
    if s not in _comp:
        c = oracle.comp(s)
        _comp[s] = None if c is None else ({**dict(c[0])}, c[1])
    return _comp[s]


class Model:
    """sequential reference model (plain list)"""

    def __init__(self, init=None):
        self.db = [dict(formula=r["formula"], smiles=r["smiles"]) for r in (init or [])]

    def add(self, f, s):
        if any(r["formula"] == f for r in self.db) or any(r["smiles"] == s for r in self.db):
            return False
        if not isinstance(s, str) or oracle.parse(s) is None:
            return False
        self.db.append(dict(formula=f, smiles=s))
        return True

    def remove(self, f):
        for i, r in enumerate(self.db):
            if r["formula"] == f:
                del self.db[i]
                return True
        return False


STATE = {"viol": [], "evals": 0, "exempt": set()}


def invariant_holds(self):
    """icontract invariant: records and returns True (a raising contract would abort the
    history; the harness drains STATE['viol'] after every operation)"""
    STATE["evals"] += 1
    seen_f, seen_s = {}, {}
    for i, r in enumerate(self.database):
        c = comp(r.get("smiles"))
        comp_rec = r.get("Composition")
        if c is None:
            STATE["viol"].append(("record_smiles_invalid", r))
            continue
        if comp_rec is None or "Q" not in comp_rec:
            STATE["viol"].append(("record_without_explicit_charge", r))
            continue
        if {k: v for k, v in comp_rec.items() if k != "Q" and v} != c[0] or comp_rec["Q"] != c[1]:
            STATE["viol"].append(("record_composition_wrong", r))
        for key, seen, name in ((r.get("formula"), seen_f, "formula"), (r.get("smiles"), seen_s, "smiles")):
            if key in seen and (name, key) not in STATE["exempt"]:
                STATE["viol"].append(("duplicate_" + name, r))
            seen[key] = i
    return True


_MON = {}


def monitored_class():
    if "cls" not in _MON:
        import icontract
        from synrbl.SynRuleImputer.rule_data_manager import RuleImputeManager

        class InvariantBroken(Exception):
            pass

        _MON["cls"] = icontract.invariant(invariant_holds, error=InvariantBroken)(RuleImputeManager)
    return _MON["cls"]


def apply_op(mgr, model, op, res, hist):
    """apply to the real manager and to the model, compare"""
    before = copy.deepcopy(mgr.database)
    accepted = rejected = 0
    buf = io.StringIO()
    with contextlib.redirect_stdout(buf):
        if op[0] == "add":
            _, f, s = op
            want = model.add(f, s)
            try:
                mgr.add_entry(f, s)
                got = True
            except ValueError:
                got = False
            except Exception as e:  # noqa  (the property says "rejected and reported", not which exception type)
                res.count("add_entry_rejections_with_other_exception_type")
                res.add("rejection_exception_types", type(e).__name__)
                got = False
            if got is not None and got != want:
                res.viol("add_entry_accept_reject_wrong", history=hist, op=op, accepted=got, model=want)
            if got is False and mgr.database != before:
                res.viol("rejected_add_changed_database", history=hist, op=op)
            accepted, rejected = int(bool(want)), int(not want)
        elif op[0] == "rm":
            want = model.remove(op[1])
            try:
                mgr.remove_entry(op[1])
            except Exception as e:  # noqa
                if want:  # a present entry could not be removed
                    res.viol("remove_entry_raised", history=hist, op=op, error=repr(e)[:200])
                else:  # refusing to remove an absent formula loudly is not a violation (the database is compared below)
                    res.count("remove_of_absent_formula_raised")
            accepted, rejected = int(want), int(not want)
        else:
            items = [{"formula": f, "smiles": s} for f, s in op[1]]
            want_rej = []
            for it in items:
                if model.add(it["formula"], it["smiles"]):
                    accepted += 1
                else:
                    want_rej.append(it)
                    rejected += 1
            try:
                got_rej = mgr.add_entries(copy.deepcopy(items))
            except Exception as e:  # noqa
                res.viol("add_entries_raised", history=hist, error=repr(e)[:200])
                got_rej = None
            if got_rej is not None and got_rej != want_rej:
                res.viol("add_entries_reports_wrong_rejections", history=hist, op=op, got=got_rej, want=want_rej)
    res.ev()
    now = [(r.get("formula"), r.get("smiles")) for r in mgr.database]
    exp = [(r["formula"], r["smiles"]) for r in model.db]
    if now != exp:
        res.viol("database_differs_from_reference_model", history=hist, op=op, got=now[-6:], want=exp[-6:])
        model.db = [dict(formula=f, smiles=s) for f, s in now]  # resync, keep exploring
    for kind, rec in STATE["viol"]:
        res.viol("invariant:" + kind, history=hist, op=op, record=rec)
    STATE["viol"].clear()
    return accepted, rejected


def initial_duplicates(db, name, res):
    seen_f, seen_s = {}, {}
    dups = []
    for r in db:
        for key, seen, kind in ((r["formula"], seen_f, "formula"), (r["smiles"], seen_s, "smiles")):
            if key in seen:
                dups.append([kind, key])
                STATE["exempt"].add((kind, key))
            seen[key] = True
    res.ev()
    if dups:
        res.viol("initial_state_duplicates", db=name, duplicates=sorted(dups), case={"db": name})


def run_history(ops, init, res, name="empty"):
    cls = monitored_class()
    with contextlib.redirect_stdout(io.StringIO()):
        mgr = cls(copy.deepcopy(init))
    model = Model(init)
    STATE["viol"].clear()
    acc = rej = 0
    hist = []
    for op in ops:
        hist.append(op)
        a, r = apply_op(mgr, model, op, res, [name] + hist)
        acc += a
        rej += r
    if acc and rej:
        res.case([name, ops])
    res.count("histories")


def dfs(first, depth, res, OPS=None, counter="exhaustive_histories"):
    OPS = OPS or globals()["OPS"]
    """prefix-sharing depth-first enumeration of every history of length <= depth that starts with
    OPS[first]; the database list is snapshotted/restored at each node (records are never mutated)"""
    cls = monitored_class()
    with contextlib.redirect_stdout(io.StringIO()):
        mgr = cls([])
    model = Model([])
    STATE["viol"].clear()
    full = [0]
    sample = []

    def rec(op_i, hist, acc, rej, d):
        snap_real, snap_model = list(mgr.database), list(model.db)
        hist.append(OPS[op_i])
        a, r = apply_op(mgr, model, OPS[op_i], res, ["empty"] + hist)
        acc, rej = acc + a, rej + r
        res.count("histories")
        if d == depth:
            full[0] += 1
            if acc and rej:
                res.case_count()
            if len(sample) < 1 and acc and rej and op_i == 7:
                sample.append(list(hist))
        else:
            if acc and rej:
                res.case_count()
            for j in range(len(OPS)):
                rec(j, hist, acc, rej, d + 1)
        hist.pop()
        mgr.database = snap_real
        model.db = snap_model

    rec(first, [], 0, 0, 1)
    res.count(counter, full[0])
    if sample:
        res.sample({"history": sample[0]})


def plan(tier, seed):
    q = tier == "quick"
    depth = 5 if q else 6
    shards = [{"exh": {"first": i, "depth": depth}} for i in range(len(OPS))]
    shards += [{"rand": {"n": 70 if q else 1700, "salt": i, "init": init}}
               for i, init in enumerate(["empty", "manager", "automated"])]
    shards.append({"periodic": True})
    shards += [{"alias": {"first": i, "depth": 5 if q else 6}} for i in range(len(ALIAS_OPS))]
    return shards


def random_op(rng, pool):
    k = rng.random()
    if k < 0.55:
        f, s = rng.choice(pool)
        if rng.random() < 0.2:
            f = f + "_x%d" % rng.randrange(3)
        return ("add", f, s)
    if k < 0.8:
        return ("rm", rng.choice(pool)[0])
    return ("bulk", [rng.choice(pool) for _ in range(rng.randint(0, 3))])


def work(shard, res, tier, seed):
    import warnings
    warnings.filterwarnings("ignore")
    monitored_class()
    if "replay" in shard:
        v = shard["replay"]
        hist = v.get("history")
        if hist:
            name, ops = hist[0], [tuple(o) if o[0] != "bulk" else ("bulk", [tuple(x) for x in o[1]]) for o in hist[1:]]
            init = load(name)
            STATE["exempt"].clear()
            initial_duplicates(init, name, res)
            res.violations.clear()
            run_history(ops, init, res, name)
        return
    if "alias" in shard:
        dfs(shard["alias"]["first"], shard["alias"]["depth"], res, OPS=ALIAS_OPS, counter="exhaustive_alias_histories")
    if "exh" in shard:
        first, depth = shard["exh"]["first"], shard["exh"]["depth"]
        dfs(first, depth, res)
    if "periodic" in shard:
        # every element of the periodic table as atom / cation / anion / hydride / small compound, added to the
        # empty and to a shipped database, half of them removed and re-added under another formula
        from rdkit import Chem
        pt = Chem.GetPeriodicTable()
        rng = common.rng(seed, "C19p")
        for name in ("empty", "manager"):
            init = load(name)
            STATE["exempt"].clear()
            initial_duplicates(init, name, res) if name != "empty" else None
            have = {r["smiles"] for r in init}
            ops = []
            for z in range(1, 119):
                sym = pt.GetElementSymbol(z)
                forms = ["[%s]" % sym, "[%s+2]" % sym, "[%s-]" % sym, "[%sH2]" % sym, "Cl[%s]Cl" % sym,
                         "[%d%s+]" % (2 * z + 1, sym), "C[%s](C)(C)C" % sym]
                for k, f in enumerate(forms):
                    if oracle.parse(f) is not None and f not in have:
                        ops.append(("add", "Z%d_%d" % (z, k), f))
                        res.add("elements_added", sym)
            rng.shuffle(ops)
            rm = [("rm", o[1]) for o in ops[::2]]
            re_add = [("add", o[1] + "_again", o[2]) for o in ops[::2]]
            run_history(ops[: len(ops) // 2] + [("bulk", [(o[1], o[2]) for o in ops[len(ops) // 2:]])] + rm + re_add,
                        init, res, name)
            res.count("periodic_histories")
            res.count("periodic_entries_added", len(ops))
    if "rand" in shard:
        sp = shard["rand"]
        rng = common.rng(seed, "C19", sp["salt"])
        init = load(sp["init"])
        STATE["exempt"].clear()
        initial_duplicates(init, sp["init"], res)
        pool = VALID + INVALID + DUPF + DUPS + [(r["formula"], r["smiles"]) for r in load("manager")[:25]]
        pool += [("C2H6O", "OCC"), ("Th+4", "[Th+4]"), ("ZW", "[NH3+]CC(=O)[O-]"), ("bad3", "c1ccc"), ("e", "")]
        pool += IMPOSSIBLE + [(o[1], o[2]) for o in ALIAS_OPS if o[0] == "add"]
        for i in range(sp["n"]):
            ops = [random_op(rng, pool) for _ in range(30)]
            run_history(ops, init, res, sp["init"])
        res.count("random_histories:" + sp["init"], sp["n"])
    res.count("invariant_evaluations", STATE["evals"])
    STATE["evals"] = 0


def load(name):
    if name == "empty":
        return []
    if name == "manager":
        return G.rule_compounds()
    from vchk.C08 import load_db
    return load_db("automated")


def conclude_args(res, tier, seed):
    depth = 5 if tier == "quick" else 6
    total = len(OPS) ** depth
    ex = res.counters.get("exhaustive_histories", 0) == total
    return {"need": {"invariant_evaluations": 1000, "histories": 1000, "random_histories:manager": 10,
                     "periodic_entries_added": 600, "exhaustive_alias_histories": 1000},
            "min_cases": 100,
            "extra": {"exhaustive_subspace": "all %d^%d = %d histories over the %d-operation alphabet from the empty "
                      "database enumerated completely: %s" % (len(OPS), depth, total, len(OPS), ex)}}
