"""C02 - rebalancing only adds whole molecules; the given molecules are never
altered; input_reaction is the input with atom maps removed."""
from vchk import common, rowlib
from vmon import oracle
from vgen import reactions as G

RULE = ("cases run through the real Balancer.rebalance; oracle = multisets of canonical connected "
        "components (RDKit, maps cleared through the API) of each side: input side must be a "
        "sub-multiset of the output side and input_reaction must equal the de-mapped raw input; "
        "distinct non-trivial = distinct inputs where something was added or whose text contains a "
        "marker substring ('.[H]', '.[O', '.OO'); the same kinds of reaction with isotope labels on atoms of the given molecules; every fourth case is followed by a second run in which the returned "
        "rows (dicts carrying the tool's own columns) are edited and fed back")
ASSUMPTIONS = [
    "RDKit canonical SMILES of a connected component identifies 'the same molecule'",
    "inputs with radicals / free atomic H or O / dummy atoms are out of the property's domain",
]
TIMEOUT = {"quick": 900, "thorough": 3000}
MARKERS = (".[H]", ".[O", ".OO")
CFGS = [
    {"batch_size": None, "threshold": 0, "n_jobs": 1},
    {"batch_size": 3, "threshold": 0, "n_jobs": 1},
    {"batch_size": None, "threshold": 0.5, "n_jobs": 1},
]


def isotope_labelled(rng, pairs):
    """the same reactions with isotope labels (13C, 14C, 18O, 15N, 2H-bearing bracket atoms) written on atoms of one
    or more given molecules: a label is part of the molecule and must come back on it"""
    from rdkit import Chem
    iso = {6: [13, 14], 8: [18, 17], 7: [15], 16: [34]}
    out = []
    for t, rx in pairs:
        sp = oracle.split_rsmi(rx)
        if sp is None:
            continue
        sides = []
        done = 0
        for side in sp:
            mols = []
            for m in side.split("."):
                mol = oracle.parse(m)
                if mol is None or "1." in m or rng.random() < 0.4:
                    mols.append(m)
                    continue
                cand = [a for a in mol.GetAtoms() if a.GetAtomicNum() in iso and a.GetIsotope() == 0]
                if not cand:
                    mols.append(m)
                    continue
                for a in rng.sample(cand, min(len(cand), rng.choice([1, 1, 2]))):
                    a.SetIsotope(rng.choice(iso[a.GetAtomicNum()]))
                mols.append(Chem.MolToSmiles(mol, canonical=bool(rng.randrange(2))))
                done += 1
            sides.append(".".join(mols))
        if done:
            out.append((t + "|iso", ">>".join(sides)))
    return out


def plan(tier, seed):
    rng = common.rng(seed, "C02")
    q = tier == "quick"
    cases = []
    cases += rowlib.corpus_cases(rng, 240 if q else 5032, 10 if q else 24, CFGS)
    cases += rowlib.gen_cases(G.marker_collisions(rng, 300 if q else 5000), 10, CFGS, "marker")
    cases += rowlib.gen_cases(G.redox_family(rng, 68 if q else 600), 6, CFGS, "redox")
    cases += rowlib.gen_cases(G.deletions(rng, 80 if q else 1200), 8, CFGS, "del")
    cases += rowlib.gen_cases(G.two_sided_oxygen(rng, 30 if q else 300), 6, CFGS, "both")
    cases += rowlib.gen_cases(G.ionic_balanced(rng, 20 if q else 200), 8, CFGS, "ionic")
    cases += rowlib.gen_cases(G.h2_on_reactant_side(rng, 48 if q else 500), 8, CFGS, "h2")
    cases += rowlib.gen_cases(G.dot_ring_closures(rng, 24 if q else 200), 8, CFGS, "dotring")
    cases += rowlib.gen_cases(G.spectator_laden(rng, 24 if q else 200), 8, CFGS, "spect")
    cases += rowlib.gen_cases(G.dative(rng, 40 if q else 400), 8, CFGS, "dative")
    cases += rowlib.gen_cases(G.completion_prefix_collisions(rng, 48 if q else 400), 8, CFGS, "prefixcoll")
    lab = G.deletions(rng, 40 if q else 400) + G.redox_family(rng, 20 if q else 200) + G.ionic_balanced(rng, 10 if q else 100)
    cases += rowlib.gen_cases(isotope_labelled(rng, lab), 8, CFGS, "isotope")
    # large batches: many completed rows, rows rewritten by reagent templates at positions >= 10 (>= 100)
    big = G.redox_family(rng, 60 if q else 600) + G.deletions(rng, 40 if q else 400) + G.additions(rng, 20 if q else 200)
    rng.shuffle(big)
    cases += rowlib.gen_cases(big, 30 if q else 120, [CFGS[0], CFGS[2]], "big")
    if not q:
        from vgen import corpus
        cases += rowlib.gen_cases(corpus.raw_reactions(), 24, CFGS, "raw")
    return rowlib.spread(cases, 16 if q else 48)


def judge(case, out, res):
    if not rowlib.aligned(case, out):
        res.count("cases_not_aligned(C05)")
        return
    cfg = case.get("cfg") or {}
    for pos, (inp, row) in enumerate(zip(case["inputs"], out["rows"])):
        raw = rowlib.raw_of(inp)
        if not oracle.in_domain_rsmi(raw):
            res.count("out_of_domain")
            continue
        res.ev()
        ir, rx = row.get("input_reaction"), row.get("reaction")
        f_raw = oracle.rfrags(raw)
        f_ir = oracle.rfrags(ir)
        f_rx = oracle.rfrags(rx)
        has_marker = any(m in raw for m in MARKERS)
        if has_marker:
            res.count("inputs_with_marker_text")
        if rx != ir:
            res.count("rows_with_additions")
        if rx != ir or has_marker:
            res.case(raw)
        common_w = dict(input=raw, input_reaction=ir, reaction=rx, solved=row.get("solved"),
                        solved_by=row.get("solved_by"))
        if f_ir is None or f_ir != f_raw:
            res.viol("input_reaction_not_demapped_input", case=common_w, cfg=cfg,
                     inputs=case["inputs"], pos=pos)
            continue
        if f_rx is None:
            res.viol("output_unparsable", case=common_w, cfg=cfg, inputs=case["inputs"], pos=pos)
            continue
        for side in (0, 1):
            if not oracle.contains(f_rx[side], f_raw[side]):
                missing = oracle.msub(f_raw[side], f_rx[side])
                missing = {k: v for k, v in missing.items() if v > 0}

                def bad(t, s, side=side):
                    f = oracle.rfrags(t)
                    return f is None or not oracle.contains(f[side], f_raw[side])
                stage = rowlib.stage_where(out, pos, bad)
                res.viol("input_molecule_lost_or_altered", case=common_w, side=side,
                         missing=missing, first_bad_stage=stage, cfg=cfg,
                         inputs=case["inputs"], pos=pos)
                break


def work(shard, res, tier, seed):
    if "replay" in shard:
        v = shard["replay"]
        case = {"tag": "replay", "inputs": v["inputs"], "cfg": v.get("cfg")}
        judge(case, rowlib.run_case(case), res)
        return
    for ci, case in enumerate(shard["cases"]):
        out = rowlib.run_case(case)
        judge(case, out, res)
        # multi-step use: result rows (dicts that carry the tool's own columns) are edited and fed back
        if ci % 4 == 0 and rowlib.aligned(case, out):
            again = []
            for row in out["rows"]:
                r2 = dict(row)
                a, b = row["input_reaction"].split(">>") if ">>" in str(row.get("input_reaction")) else ("", "")
                if not a or not b:
                    continue
                r2["reaction"] = (a + ".O>>" + b) if len(again) % 2 == 0 else (a + ">>" + b + ".CC")
                again.append(r2)
            if again:
                c2 = {"tag": case["tag"] + "/resubmitted", "inputs": again, "cfg": case.get("cfg")}
                judge(c2, rowlib.run_case(c2), res)
                res.count("resubmitted_rows", len(again))
        if ci == 1:
            # the same batch and then a permutation of it through a Balancer with the result cache on: every
            # returned row still has to describe the reaction submitted at its position
            import shutil
            import tempfile
            from vmon import pipeline
            tmp = tempfile.mkdtemp(prefix="verif_c02c_")
            try:
                bc = pipeline.make_balancer(n_jobs=1, cache=True, cache_dir=tmp)
                perm = list(case["inputs"])[::-1]
                for inputs in (case["inputs"], perm, case["inputs"]):
                    rows, stats, err = pipeline.run(bc, inputs)
                    c3 = {"tag": case["tag"] + "/cached", "inputs": inputs, "cfg": case.get("cfg")}
                    judge(c3, {"rows": rows, "stats": stats, "err": err, "batches": []}, res)
                    res.count("cached_runs_of_permuted_batches")
            finally:
                shutil.rmtree(tmp, ignore_errors=True)
        if len(res.samples) < 3 and out["rows"]:
            for row in out["rows"]:
                if row.get("reaction") != row.get("input_reaction"):
                    res.sample({"input_reaction": row["input_reaction"], "reaction": row["reaction"]})
                    break


def conclude_args(res, tier, seed):
    return {"need": {"rows_with_additions": 20, "inputs_with_marker_text": 20, "resubmitted_rows": 20,
                     "cached_runs_of_permuted_batches": 6},
            "min_cases": 20}
