"""C08 - rule-based completions add up exactly to the imbalance they are asked
to fill; shipped rule records are true; accepted completions never add
dihalogens / interhalogens to the product side."""
import itertools
import json
import os
from collections import Counter

from vchk import common
from vmon import oracle
from vgen import corpus
from vgen import reactions as G

RULE = ("real SyntheticRuleMatcher.match (select='all', ranking='ion_priority' as the pipeline uses it) on every "
        "imbalance vector with <= 3 (quick) / <= 4 (thorough) atoms over the database's elements x charge "
        "-2..2 (exhaustive), random sums of database compounds and perturbed variants (watchdog per call); "
        "real single_impute + RuleConstraint.fit on entries built from reactions; both shipped databases "
        "record by record; contracts also evaluated on every single_impute call of real pipeline runs; "
        "distinct non-trivial = distinct imbalance vectors with at least one returned solution")
ASSUMPTIONS = ["true composition of a rule compound = independent RDKit oracle on its SMILES",
               "a matcher call that exceeds the generous wall-clock watchdog is counted inconclusive, never a violation"]
TIMEOUT = {"quick": 900, "thorough": 3000}
DIHALOGENS = {"FF", "ClCl", "BrBr", "II", "ClBr", "ClI", "BrI", "FCl", "FBr", "FI"}
BANNED = {oracle.demap(s) for s in ("FF", "ClCl", "BrBr", "II", "ClBr", "ClI", "BrI")}


def load_db(which):
    if which == "manager":
        return G.rule_compounds()
    path = os.path.join(corpus.REPO, "Data/Rules/automated_rules.json.gz")
    raw = open(path, "rb").read()
    if raw[:2] == b"\x1f\x8b":
        import gzip
        raw = gzip.decompress(raw)
    return json.loads(raw)


def db_elements(db):
    els = set()
    for e in db:
        els.update(k for k in e["Composition"] if k != "Q")
    return sorted(els)


def vectors(els, max_atoms):
    out = []
    for n in range(0, max_atoms + 1):
        for combo in itertools.combinations_with_replacement(els, n):
            c = Counter(combo)
            for q in (-2, -1, 0, 1, 2):
                d = dict(c)
                if q:
                    d["Q"] = q
                out.append(d)
    return out


def mixed_sign_vectors(els):
    """vectors with a negative entry next to positive ones (the second rule-based pass produces them for
    two-sided imbalances); no completion can add up to them, so any returned solution is wrong"""
    out = []
    for a, b in itertools.permutations(els, 2):
        for neg in (-1, -2):
            for pos in (1, 2):
                out.append({a: pos, b: neg})
    for a, b, c in itertools.permutations(els[:8], 3):
        out.append({a: 2, b: 1, c: -1})
    return out


def plan(tier, seed):
    q = tier == "quick"
    shards = [{"records": True}, {"mixed_sign": True}]
    n = 12 if q else 40
    for i in range(n):
        shards.append({"vec": {"db": "manager", "max": 3 if q else 4, "i": i, "n": n}})
    shards.append({"vec": {"db": "automated", "max": 3 if q else 5, "i": 0, "n": 1}})
    shards.append({"sums": {"n": 150 if q else 2000, "salt": 0}})
    if not q:
        shards += [{"sums": {"n": 1500, "salt": k}} for k in (1, 2, 3)]
    shards.append({"entries": 200 if q else 3000})
    shards.append({"pipeline": 80 if q else 800})
    return shards


def check_solutions(db, vec, sols, res, where):
    """vec: requested imbalance (elements + optional Q)"""
    by_smiles = {}
    for e in db:
        by_smiles.setdefault(e["smiles"], e)
    want = {k: v for k, v in vec.items() if k != "Q" and v}
    wq = vec.get("Q", 0)
    for sol in sols:
        res.ev()
        tot = Counter()
        tq = 0
        ok = True
        for item in sol:
            s, r = item.get("smiles"), item.get("Ratio")
            if s not in by_smiles:
                res.viol("completion_uses_compound_outside_database", case={"vector": vec}, item=item, where=where)
                ok = False
                break
            if not (isinstance(r, int) and not isinstance(r, bool) and r > 0):
                res.viol("completion_with_nonpositive_ratio", case={"vector": vec}, solution=sol, where=where)
                ok = False
                break
            c, q = oracle.comp(s)
            for k, v in c.items():
                tot[k] += v * r
            tq += q * r
        if not ok:
            continue
        if dict(tot) != want or tq != wq:
            res.viol("completion_does_not_add_up", case={"vector": vec}, solution=sol,
                     got={**dict(tot), "Q": tq}, where=where)
    if sols and any(len(s) for s in sols):
        res.case(sorted(vec.items()))
        res.count("vectors_with_solution")


def run_match(db, vec, res, where, budget=20):
    from synrbl.SynRuleImputer.synthetic_rule_matcher import SyntheticRuleMatcher
    import copy
    try:
        with common.alarm(budget):
            m = SyntheticRuleMatcher(copy.deepcopy(db), dict(vec), select="all", ranking="ion_priority")
            sols = m.match()
    except common.Watchdog:
        res.count("matcher_watchdog(inconclusive)")
        return None
    res.count("matcher_calls")
    check_solutions(db, vec, sols, res, where)
    return sols


def work(shard, res, tier, seed):
    import warnings
    warnings.filterwarnings("ignore")
    rng = common.rng(seed, "C08", json.dumps(shard, sort_keys=True))
    if "replay" in shard:
        v = shard["replay"]
        c = v.get("case", {})
        if "vector" in c:
            run_match(load_db("manager"), c["vector"], res, "replay")
        elif "reaction" in c:
            for which in ("manager", "automated", "manager", "automated"):
                entry_one(c["reaction"], load_db(which), res)
        elif "record" in c:
            shard = {"records": True}
        else:
            return
    if "records" in shard:
        for which in ("manager", "automated"):
            db = load_db(which)
            for e in db:
                res.ev()
                res.count("records_checked")
                c = oracle.comp(e["smiles"])
                if c is None:
                    res.viol("record_smiles_invalid", case={"record": e}, db=which)
                    continue
                comp = {k: v for k, v in e["Composition"].items() if k != "Q" and v}
                if comp != dict(c[0]) or e["Composition"].get("Q", 0) != c[1]:
                    res.viol("record_composition_wrong", case={"record": e}, want=[dict(c[0]), c[1]], db=which)
                res.case(["record", which, e["smiles"]])
        res.sample({"record": load_db("manager")[30]})
    if "vec" in shard:
        sp = shard["vec"]
        db = load_db(sp["db"])
        vs = vectors(db_elements(db), sp["max"])
        mine = vs[sp["i"]::sp["n"]]
        for v in mine:
            run_match(db, v, res, "exhaustive:" + sp["db"])
        res.count("exhaustive_vectors:%s" % sp["db"], len(mine))
        res.count("exhaustive_space:%s" % sp["db"], len(vs) if sp["i"] == 0 else 0)
        sv = mine[len(mine) // 2]
        res.sample({"vector": sv})
    if "mixed_sign" in shard:
        db = load_db("manager")
        vs = mixed_sign_vectors(db_elements(db))
        for v in vs:
            run_match(db, v, res, "mixed_sign")
        res.count("mixed_sign_vectors", len(vs))
    if "sums" in shard:
        db = load_db("manager")
        for i in range(shard["sums"]["n"]):
            k = rng.randint(1, 3)
            vec = Counter()
            q = 0
            for e in rng.sample(db, k):
                r = rng.randint(1, 3)
                for el, n in e["Composition"].items():
                    if el == "Q":
                        q += n * r
                    else:
                        vec[el] += n * r
            vec = {k2: v for k2, v in vec.items() if v}
            if "C" in vec:
                continue
            if rng.random() < 0.3:  # perturb: usually unsolvable
                el = rng.choice(list(vec) or ["H"])
                vec[el] = vec.get(el, 0) + rng.choice([1, 2])
            if q:
                vec["Q"] = q
            if sum(v for k2, v in vec.items() if k2 != "Q") > 14:
                continue
            run_match(db, vec, res, "sums", budget=15)
    if "entries" in shard:
        # both shipped databases are used side by side in one process (a completion must come from the database
        # that was passed in, whatever was solved before)
        dbs = [load_db("manager"), load_db("automated")]
        pairs = G.deletions(rng, shard["entries"]) + G.redox_family(rng, shard["entries"] // 4) + \
            G.dihalogen_oxygen_loss(rng, shard["entries"] // 4) + G.completion_prefix_collisions(rng, shard["entries"] // 4)
        for k, (tag, rx) in enumerate(pairs):
            for db in (dbs if k % 2 == 0 else dbs[::-1]):
                entry_one(rx, db, res)
    if "pipeline" in shard:
        pipeline_part(shard["pipeline"], rng, res)


def entry_one(rx, db, res):
    """drive the real decomposer/comparator/imputer/constraint on one reaction the
    way rule_based.py does, and judge the imputer's and constraint's outputs"""
    from synrbl.SynProcessor import RSMIDecomposer, RSMIComparator
    from synrbl.SynRuleImputer import SyntheticRuleImputer
    from synrbl.SynRuleImputer.synthetic_rule_constraint import RuleConstraint
    if not oracle.in_domain_rsmi(rx):
        res.count("out_of_domain")
        return
    a, b = rx.split(">>")
    rd, pd_ = RSMIDecomposer.decompose(a), RSMIDecomposer.decompose(b)
    verdict = RSMIComparator.compare_dicts(rd, pd_)
    if verdict not in ("Products", "Reactants"):
        return
    diff = RSMIComparator.diff_dicts(rd, pd_)
    entry = {"id": "0", "reactants": a, "products": b, "Unbalance": verdict, "Diff_formula": diff,
             "reaction": rx}
    try:
        with common.alarm(20):
            out = SyntheticRuleImputer.single_impute(entry, db, "all", "ion_priority")
    except common.Watchdog:
        res.count("matcher_watchdog(inconclusive)")
        return
    res.count("single_impute_calls")
    judge_impute(entry, out, db, res, "direct")
    if "new_reaction" not in out:
        return
    before = oracle.imbalance(out["new_reaction"])
    # the same imputer output is handed to the constraint step three times (pipeline ban list, the class default,
    # pipeline ban list again): every pass is judged; a pass must not depend on an earlier one
    PIPE = ["[O].[O]", "F-F", "Cl-Cl", "Br-Br", "I-I", "Cl-Br", "Cl-I", "Br-I"]
    for npass, ban in enumerate((PIPE, None, PIPE)):
        rc = RuleConstraint([out], ban_atoms=ban) if ban is not None else RuleConstraint([out])
        certain, uncertain = rc.fit()
        res.count("constraint_calls")
        judge_constraint(rx, b, before, certain, uncertain, res, npass)


def judge_constraint(rx, b, before, certain, uncertain, res, npass):
    for group, acc in ((certain, True), (uncertain, False)):
        for e in group:
            res.ev()
            nr = e.get("new_reaction")
            ok = oracle.balanced(nr)
            if ok is None:
                res.viol("constraint_output_unparsable", case={"reaction": rx}, new_reaction=nr, constraint_pass=npass)
                continue
            after = oracle.imbalance(nr)
            if after != before:
                res.viol("constraint_changed_composition_difference", case={"reaction": rx},
                         before=before, after=after, new_reaction=nr, accepted=acc, constraint_pass=npass)
            if acc:
                res.count("constraint_accepted")
                fp_in = oracle.frags(b)
                fp_out = oracle.frags(nr.split(">>")[1])
                added = oracle.msub(fp_out, fp_in)
                bad = [k for k, v in added.items() if v > 0 and k in BANNED]
                if bad:
                    res.viol("accepted_completion_adds_dihalogen_to_products", case={"reaction": rx},
                             added=bad, new_reaction=nr, constraint_pass=npass)
            else:
                res.count("constraint_rejected")


def judge_impute(entry, out, db, res, where):
    """judged on fragment multisets (RDKit components), not on how the text was assembled"""
    res.ev()
    key = "products" if entry["Unbalance"] == "Products" else "reactants"
    other = "reactants" if key == "products" else "products"
    w = dict(case={"reaction": entry.get("reaction")}, where=where)
    f_old, f_oth = oracle.frags(entry[key]), oracle.frags(entry[other])
    if "new_reaction" not in out:
        if oracle.frags(out.get(key) or "") != f_old or oracle.frags(out.get(other) or "") != f_oth:
            res.viol("imputer_changed_sides_without_solution", **w)
        return
    res.count("single_impute_with_solution:" + where)
    f_new, f_oth_new = oracle.frags(out.get(key) or ""), oracle.frags(out.get(other) or "")
    if f_new is None or f_oth_new is None:
        res.viol("imputer_added_unparsable_text", new=out.get(key), **w)
        return
    nr = oracle.rfrags(out["new_reaction"])
    sides = (f_new, f_oth_new) if key == "reactants" else (f_oth_new, f_new)
    if nr is None or (nr[0], nr[1]) != sides:
        res.viol("imputer_new_reaction_inconsistent", new_reaction=out["new_reaction"], **w)
    delta = oracle.msub(f_new, f_old)
    if f_oth_new != f_oth or any(v < 0 for v in delta.values()) or not delta:
        res.viol("imputer_did_not_append", old=entry[key], new=out.get(key), **w)
        return
    added = delta
    known = {oracle.frags(e["smiles"]) and next(iter(oracle.frags(e["smiles"]))) for e in db}
    outside = [k for k in added if k not in known]
    if outside:
        res.viol("completion_uses_compound_outside_database", case={"reaction": entry.get("reaction")},
                 item=outside, where=where)
    tot = Counter()
    tq = 0
    for s, n in added.items():
        c, q = oracle.comp(s)
        for k, v in c.items():
            tot[k] += v * n
        tq += q * n
    want = {k: v for k, v in entry["Diff_formula"].items() if k != "Q" and v}
    if dict(tot) != want or tq != entry["Diff_formula"].get("Q", 0):
        res.viol("completion_does_not_add_up", case={"reaction": entry.get("reaction"),
                                                     "vector": entry["Diff_formula"]},
                 got={**dict(tot), "Q": tq}, where=where)
    res.case(sorted(entry["Diff_formula"].items()))


def pipeline_part(n, rng, res):
    from synrbl.SynRuleImputer import SyntheticRuleImputer
    from vchk import rowlib
    orig = SyntheticRuleImputer.single_impute
    calls = []

    def wrapped(missing_dict, rule_dict, select="best", ranking="longest"):
        out = orig(missing_dict, rule_dict, select, ranking)
        calls.append((dict(missing_dict), dict(out), rule_dict))
        return out

    SyntheticRuleImputer.single_impute = staticmethod(wrapped)
    try:
        cases = rowlib.corpus_cases(rng, n, 10, [{"batch_size": None, "threshold": 0, "n_jobs": 1}])
        cases += rowlib.gen_cases(G.deletions(rng, n), 10, [{"batch_size": None, "threshold": 0, "n_jobs": 1}], "del")
        cases += rowlib.gen_cases(G.two_sided_oxygen(rng, n // 2) + G.redox_family(rng, n // 4)
                                  + G.dihalogen_oxygen_loss(rng, n // 2), 10,
                                  [{"batch_size": None, "threshold": 0, "n_jobs": 1}], "both")
        for c in cases:
            out = rowlib.run_case(c, trace=False)
            # row level: rule-based rows never add dihalogens to the product side
            if rowlib.aligned(c, out):
                for row in out["rows"]:
                    if row.get("solved_by") != "rule-based" or not oracle.in_domain_rsmi(row["input_reaction"]):
                        continue
                    fi, fo = oracle.rfrags(row["input_reaction"]), oracle.rfrags(row["reaction"])
                    if fi is None or fo is None:
                        continue
                    res.ev()
                    res.count("rule_based_rows")
                    bad = [k for k, v in oracle.msub(fo[1], fi[1]).items() if v > 0 and k in BANNED]
                    if bad:
                        res.viol("accepted_completion_adds_dihalogen_to_products",
                                 case={"reaction": row["input_reaction"]}, added=bad,
                                 new_reaction=row["reaction"], where="pipeline")
                    # the accepted completion, as the client sees it: what was added fills the imbalance exactly
                    if oracle.balanced(row["reaction"]) is not True:
                        res.viol("completion_does_not_add_up", case={"reaction": row["input_reaction"],
                                                                     "vector": oracle.imbalance(row["input_reaction"])},
                                 got=oracle.imbalance(row["reaction"]), where="pipeline_row")
    finally:
        SyntheticRuleImputer.single_impute = staticmethod(orig)
    for entry, out, db in calls:
        entry = dict(entry)
        entry.setdefault("reaction", entry.get("reactants", "") + ">>" + entry.get("products", ""))
        judge_impute(entry, out, db, res, "pipeline")


def conclude_args(res, tier, seed):
    wd = res.counters.get("matcher_watchdog(inconclusive)", 0)
    calls = res.counters.get("matcher_calls", 0)
    if wd > 0.2 * max(calls, 1):
        res.incon("%d matcher calls hit the watchdog" % wd)
    ex = res.counters.get("exhaustive_vectors:manager", 0) == res.counters.get("exhaustive_space:manager", -1)
    need_pipe = {"single_impute_with_solution:pipeline": 20}
    if res.counters.get("single_impute_with_solution:pipeline", 0) == 0 and res.counters.get("rule_based_rows", 0) >= 20:
        # the pipeline does not go through single_impute (another implementation of the bulk imputer): the
        # rule-based rows it produced were judged at the client boundary instead
        need_pipe = {"rule_based_rows": 20}
    return {"need": {"records_checked": 60, "matcher_calls": 3000, "vectors_with_solution": 200,
                     "single_impute_with_solution:direct": 50, **need_pipe,
                     "constraint_accepted": 30, "mixed_sign_vectors": 500},
            "min_cases": 200,
            "extra": {"exhaustive_subspace": "imbalance vectors up to %d atoms x charge -2..2 over the shipped "
                      "database's elements enumerated completely: %s" % (3 if tier == "quick" else 4, ex)}}
