"""C01 - every row marked solved carries a parsable reaction that is balanced
in every element (all H) and in charge, whichever stage produced it."""
from vchk import common, rowlib
from vmon import oracle
from vgen import reactions as G

RULE = ("cases = (list of input reactions, batch size, threshold, n_jobs) run through the real "
        "Balancer.rebalance; oracle = independent RDKit composition of both sides of every row "
        "with solved=True; distinct non-trivial = distinct (input reaction, config) whose row is "
        "solved by a non-identity stage (rule-based, mcs-based or rewritten by post-processing)")
ASSUMPTIONS = [
    "RDKit parser/valence model defines 'valid molecule' and the true composition",
    "inputs outside the domain (radicals, dummy atoms, unparsable) are counted, not judged",
    "stage snapshots come from wrappers on the Balancer instance and only localise a violation",
]
TIMEOUT = {"quick": 900, "thorough": 3000}

CFGS_Q = [
    {"batch_size": None, "threshold": 0, "n_jobs": 1},
    {"batch_size": 1, "threshold": 0, "n_jobs": 1},
    {"batch_size": 7, "threshold": 0.5, "n_jobs": 1},
    {"batch_size": None, "threshold": 0.5, "n_jobs": 1},
]


def plan(tier, seed):
    rng = common.rng(seed, "C01")
    quick = tier == "quick"
    cases = []
    cases += rowlib.corpus_cases(rng, 320 if quick else 5032, 10 if quick else 24, CFGS_Q)
    cases += rowlib.gen_cases(G.redox_family(rng, 102 if quick else 900), 6, CFGS_Q, "redox")
    cases += rowlib.gen_cases(G.ionic_balanced(rng, 40 if quick else 400), 8, CFGS_Q, "ionic")
    cases += rowlib.gen_cases(G.heavy_unbalanced(rng, 40 if quick else 300), 8, CFGS_Q, "heavy")
    cases += rowlib.gen_cases(G.deletions(rng, 120 if quick else 1500), 8, CFGS_Q, "del")
    cases += rowlib.gen_cases(G.additions(rng, 40 if quick else 400), 8, CFGS_Q, "add")
    cases += rowlib.gen_cases(G.marker_collisions(rng, 40 if quick else 400), 8, CFGS_Q, "marker")
    cases += rowlib.gen_cases(G.dative(rng, 48 if quick else 400), 8, CFGS_Q, "dative")
    cases += rowlib.gen_cases(G.charge_only_imbalance(rng, 40 if quick else 300), 8, CFGS_Q, "charge_only")
    # large batches in which many rows (also at positions >= 10, >= 100) are rewritten by the reagent templates
    big = G.redox_family(rng, 60 if quick else 600) + G.deletions(rng, 30 if quick else 300)
    rng.shuffle(big)
    cases += rowlib.gen_cases(big, 30 if quick else 120, [CFGS_Q[0], CFGS_Q[3]], "bigredox")
    # mixed batches: redox rows (post-processed), MCS rows (solved only in the final pass), rule-based and
    # balanced rows shuffled together, so that bookkeeping between the passes is exercised across row kinds
    from vgen import corpus as _corpus
    mixed = (G.redox_family(rng, 60 if quick else 600) + G.deletions(rng, 40 if quick else 400)
             + [("val_%d" % r["id"], r["reaction"]) for r in _corpus.stratified_sample(rng, 80 if quick else 800)]
             + [("mcs", rx) for rx in ("CC(=O)OCC>>CC(=O)O", "CC(=O)OC>>CC(=O)O", "CS(=O)(=O)OCC>>CCO",
                                       "CC(=O)NC>>CN", "c1ccccc1C(=O)OC>>OC") * (4 if quick else 30)])
    # primary alcohol + water -> acid: the one template that only balances with coefficients
    mixed += [("ox_prim_acid+w", "%sCO.O>>%sC(=O)O" % (r, r)) for r in rng.sample(G.R_GROUPS, 12 if quick else 24)
              for _ in range(1 if quick else 4)]
    rng.shuffle(mixed)
    cases += rowlib.gen_cases(mixed, 12, [CFGS_Q[0], CFGS_Q[2]], "mixed")
    if not quick:
        from vgen import corpus
        raw = corpus.raw_reactions()
        cases += rowlib.gen_cases(raw, 24, CFGS_Q, "raw")
        more = [{"batch_size": 5, "threshold": t, "n_jobs": 1} for t in (0.25, 0.9, 1)]
        cases += rowlib.corpus_cases(rng, 600, 12, more, tag="corpus_thr")
    # a few multi-worker runs (loky process pools)
    nj = rowlib.corpus_cases(rng, 36 if quick else 300, 12,
                             [{"batch_size": None, "threshold": 0, "n_jobs": 4}], tag="corpus_nj4")
    if not quick:
        nj += rowlib.corpus_cases(rng, 100, 25,
                                  [{"batch_size": None, "threshold": 0, "n_jobs": 16}], tag="corpus_nj16")
    shards = rowlib.spread(cases, 16 if quick else 48)
    shards += [{"cases": [c]} for c in nj]
    shards.append({"element_keys": True})
    return shards


def judge(case, out, res):
    if not rowlib.aligned(case, out):
        res.count("cases_not_aligned(C05)")
        # still judge whatever rows came back: the property is about rows
    rows = out["rows"] or []
    cfg = case.get("cfg") or {}
    for pos, row in enumerate(rows):
        res.count("rows")
        if not row.get("solved"):
            res.count("rows_unsolved")
            continue
        inp = row.get("input_reaction")
        rx = row.get("reaction")
        if not (isinstance(inp, str) and oracle.in_domain_rsmi(inp)):
            res.count("out_of_domain")
            continue
        res.ev()
        by = row.get("solved_by")
        res.count("solved_by:%s" % by)
        changed = rx != inp
        if by != "input-balanced" or changed:
            res.case([inp, cfg.get("threshold", 0)])
        ok = oracle.balanced(rx)
        if ok:
            continue
        stage = None
        if rowlib.aligned(case, out):
            stage = rowlib.stage_where(
                out, pos, lambda t, s: s and oracle.balanced(t) is not True)
        detail = None
        if ok is False:
            detail = oracle.imbalance(rx)
        res.viol("solved_row_not_balanced",
                 case={"input": inp, "reaction": rx, "solved_by": by},
                 parse_ok=ok is not None, imbalance=detail, first_bad_stage=stage,
                 cfg=cfg, inputs=case["inputs"], pos=pos)


def faulted_case(case, res):
    """the second rule-based run of each batch raises (memory error, bug in a rule ...): whatever rows come
    back marked solved must still be balanced"""
    b, tr = rowlib.balancer(0, 1, True)
    orig = b.rb_method.run
    n = {"k": 0}

    def run(reactions, stats=None):
        n["k"] += 1
        if n["k"] % 2 == 0:
            raise MemoryError("injected fault in the second rule-based run")
        return orig(reactions, stats=stats)

    b.rb_method.run = run
    try:
        out = rowlib.run_case(case)
    finally:
        b.rb_method.run = orig
    res.count("faulted_runs")
    if out["rows"]:
        judge({"inputs": case["inputs"][: len(out["rows"])], "cfg": case.get("cfg"), "tag": "fault"}, out, res)


def element_keys(res):
    """every element Z = 1..118 through the real decomposer: the key it is counted under must be its own symbol.
    Where it is not (two elements sharing a key), exchange reactions between the element and the owner of that
    key - unbalanced by construction - are driven through the real Balancer and judged like every other row."""
    from rdkit import Chem
    from synrbl.SynProcessor import RSMIDecomposer
    pt = Chem.GetPeriodicTable()
    suspicious = []
    for z in range(1, 119):
        sym = pt.GetElementSymbol(z)
        try:
            d = RSMIDecomposer.decompose("[%s]" % sym)
        except Exception:
            continue
        keys = [k for k in d if k != "Q"]
        res.count("element_keys_audited")
        if keys != [sym]:
            for k in keys:
                try:
                    if k != sym and pt.GetAtomicNumber(k) > 0:
                        suspicious.append((sym, k))
                except Exception:
                    pass
    res.count("elements_counted_under_another_symbol", len(suspicious))
    inputs = []
    for a, b in suspicious:
        for tmpl in ("Cl[%s]Cl.CC>>Cl[%s]Cl.CC", "[%s+2].[O-]C(C)=O>>[%s+2].[O-]C(C)=O", "C[%s]C.O>>C[%s]C.O"):
            for x, y in ((a, b), (b, a)):
                rx = tmpl % (x, y)
                if oracle.in_domain_rsmi(rx):
                    inputs.append(rx)
    if inputs:
        case = {"tag": "element_exchange", "inputs": inputs, "cfg": CFGS_Q[0]}
        judge(case, rowlib.run_case(case), res)


def work(shard, res, tier, seed):
    if "element_keys" in shard:
        element_keys(res)
        return
    if "replay" in shard:
        v = shard["replay"]
        case = {"tag": "replay", "inputs": v["inputs"], "cfg": v.get("cfg")}
        judge(case, rowlib.run_case(case), res)
        return
    for ci, case in enumerate(shard["cases"]):
        if case["tag"].startswith("redox") and ci % 2 == 0 and (case.get("cfg") or {}).get("n_jobs", 1) == 1:
            faulted_case(case, res)
        out = rowlib.run_case(case)
        if out["err"]:
            res.count("rebalance_raised")
        for m in out["missing_hooks"]:
            res.count("hook_missing:" + m)
        judge(case, out, res)
        if len(res.samples) < 3 and out["rows"]:
            for row in out["rows"]:
                if row.get("solved") and row.get("reaction") != row.get("input_reaction"):
                    res.sample({"input": row["input_reaction"], "reaction": row["reaction"],
                                "solved_by": row.get("solved_by"), "cfg": case.get("cfg")})
                    break


def conclude_args(res, tier, seed):
    return {"need": {"solved_by:rule-based": 5, "solved_by:mcs-based": 5,
                     "solved_by:input-balanced": 5, "element_keys_audited": 100}, "min_cases": 20}
