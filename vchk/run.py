"""python -m vchk.run <ID> [--tier quick|thorough] [--replay file]"""
import argparse
import importlib
import json
import os
import sys
import time


def main():
    ap = argparse.ArgumentParser()
    ap.add_argument("pid")
    ap.add_argument("--tier", default=os.environ.get("VERIF_TIER") or "quick")
    ap.add_argument("--replay")
    a = ap.parse_args()
    tier = a.tier if a.tier in ("quick", "thorough") else "quick"
    seed = int(os.environ.get("VERIF_SEED") or 0)
    from vchk import common

    mod = importlib.import_module("vchk." + a.pid)
    t0 = time.time()
    if a.replay:
        with open(a.replay) as f:
            rp = json.load(f)
        shards = [{"replay": rp["violation"]}]
        tier, seed = rp.get("tier", tier), rp.get("seed", seed)
    else:
        shards = mod.plan(tier, seed)
    res, lost = common.run_shards(a.pid, shards, tier, seed,
                                  timeout=getattr(mod, "TIMEOUT", {}).get(tier, 1500))
    kw = mod.conclude_args(res, tier, seed) if hasattr(mod, "conclude_args") else {}
    if a.replay:
        kw["need"] = None
        kw["min_cases"] = 0
        kw["write_evidence"] = False
    rc = common.conclude(a.pid, tier, seed, res, lost, t0, nshards=len(shards),
                         rule=mod.RULE, assumptions=mod.ASSUMPTIONS, **kw)
    sys.exit(rc)


if __name__ == "__main__":
    main()
