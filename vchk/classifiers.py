"""Classifiers of known findings.  Each takes a violation record (what a
monitor emitted) and decides from the *mechanism visible in the witness*
whether it is the listed finding.  Never keyed on hashes or random values."""
import re


def never(v):
    return False
