"""Classifiers of known findings.  Each takes a violation record (what a
monitor emitted) and decides from the *mechanism visible in the witness*
whether it is the listed finding.  Never keyed on hashes or random values."""
import re


def never(v):
    return False


_ORG_HYDRIDE = re.compile(r"\[(B|C|N|O|P|S|F|Cl|Br|I)H\d?(:\d+)?\]")


def c15_hypervalent_hydride(v):
    """map removal changed only the hydrogen count, and the input contains an
    organic-subset bracket atom with an explicit H count and nothing else
    (no charge / isotope / chirality) - the atom the second regex unbrackets"""
    s = v.get("case", {}).get("smiles", "")
    if not _ORG_HYDRIDE.search(s):
        return False
    if v.get("kind") == "demapped_output_unparsable":
        # same unbracketing, but the atom without its hydrogens has no valid valence at all
        # (O=[ClH5] -> O=Cl): stripping only the map numbers still gives a valid molecule
        from vmon import oracle
        return oracle.parse(re.sub(r":\d+(?=\])", "", s)) is not None and \
            oracle.parse(v.get("output")) is None
    if v.get("kind") != "molecule_changed_by_map_removal":
        return False
    wc, gc = v.get("want_comp"), v.get("got_comp")
    if not wc or not gc or wc[1] != gc[1]:
        return False
    w = {k: n for k, n in wc[0].items() if k != "H"}
    g = {k: n for k, n in gc[0].items() if k != "H"}
    return w == g and wc[0].get("H", 0) > gc[0].get("H", 0)


def c19_shipped_duplicates(v):
    """initial state of the shipped manual rule file; exactly the listed keys"""
    if v.get("kind") != "initial_state_duplicates" or v.get("db") != "manager":
        return False
    allowed = {("formula", "Cl2"), ("smiles", "ClCl"), ("smiles", "N")}
    return {tuple(d) for d in v.get("duplicates", [])} <= allowed


def c16_tree_unrolling(v):
    """the hand-written matcher unrolls the pattern as a tree: a ring pattern matches without its
    ring-closing bond, and two branches of an acyclic pattern may land on the same atom.  Anything
    else (wrong element, wrong bond type on a chain bond, missed occurrence, numbering dependence)
    is not this finding."""
    if v.get("kind") != "positive_match_without_real_occurrence":
        return False
    d = set(v.get("defects", []))
    if v.get("pattern_has_ring"):
        return bool(d) and not (d & {"element_mismatch", "chain_bond_missing", "chain_bond_type_mismatch",
                                     "anchor_not_in_match"})
    return d == {"not_injective"}
