"""python -m vchk.worker <ID> <shard.json> <out.json>"""
import faulthandler
import importlib
import json
import os
import sys
import warnings

warnings.filterwarnings("ignore")
faulthandler.enable()


def main():
    pid, sf, of = sys.argv[1:4]
    with open(sf) as f:
        spec = json.load(f)
    mod = importlib.import_module("vchk." + pid)
    from vchk.common import Result

    res = Result()
    mod.work(spec["shard"], res, spec["tier"], spec["seed"])
    tmp = of + ".tmp"
    with open(tmp, "w") as f:
        json.dump(res.dump(), f, default=str)
    os.replace(tmp, of)
    sys.stdout.flush()
    try:  # do not leave idle loky worker processes behind (they would linger for minutes and hold memory)
        from joblib.externals.loky import reusable_executor as _re
        if getattr(_re, "_executor", None) is not None:
            _re._executor.shutdown(wait=False, kill_workers=True)
    except Exception:
        pass
    os._exit(0)  # do not wait for zombie threads / loky executors


if __name__ == "__main__":
    main()
