"""python -m vchk.worker <ID> <shard.json> <out.json>"""
import faulthandler
import importlib
import json
import os
import sys
import warnings

warnings.filterwarnings("ignore")
faulthandler.enable()


def cleanup_children():
    """do not leave idle loky worker processes behind (they would linger for minutes and hold memory): shut the
    reusable executor down and wait (bounded) for its manager thread, then kill whatever is still a child"""
    import signal
    import threading
    try:
        from joblib.externals.loky import reusable_executor as _re
        ex = getattr(_re, "_executor", None)
        if ex is not None:
            t = threading.Thread(target=lambda: ex.shutdown(wait=True, kill_workers=True), daemon=True)
            t.start()
            t.join(10)
    except Exception:
        pass
    try:
        me = os.getpid()
        for d in os.listdir("/proc"):
            if not d.isdigit():
                continue
            try:
                with open("/proc/%s/stat" % d) as f:
                    st = f.read()
                if int(st.rsplit(")", 1)[1].split()[1]) == me:
                    os.kill(int(d), signal.SIGKILL)
            except Exception:
                pass
    except Exception:
        pass


def main():
    try:  # own session (see run_shards): make sure this worker does not outlive a killed ./check
        import ctypes
        import signal
        ctypes.CDLL("libc.so.6", use_errno=True).prctl(1, int(signal.SIGKILL), 0, 0, 0)  # PR_SET_PDEATHSIG
    except Exception:
        pass
    pid, sf, of = sys.argv[1:4]
    with open(sf) as f:
        spec = json.load(f)
    mod = importlib.import_module("vchk." + pid)
    from vchk.common import Result

    res = Result()
    mod.work(spec["shard"], res, spec["tier"], spec["seed"])
    tmp = of + ".tmp"
    with open(tmp, "w") as f:
        json.dump(res.dump(), f, default=str)
    os.replace(tmp, of)
    sys.stdout.flush()
    cleanup_children()
    os._exit(0)  # do not wait for zombie threads / loky executors


if __name__ == "__main__":
    main()
