"""C20 - tautomer standardisation conserves atoms, returns valid SMILES and is
idempotent."""
from rdkit import Chem

from vchk import common
from vmon import oracle
from vgen import corpus

RULE = ("real MoleculeStandardizer()(smiles) on generated families (enols, enolates and other charged oxygen "
        "species, gem-diols/triols/orthoesters, hemiketals with alkoxy groups, metal alkoxides, polyenols, "
        "mixtures, cascades in which one rewrite creates the next group) and on corpus molecules, each in several random atom orders; and on every standardiser call "
        "made inside real pipeline runs; oracle: no exception, parsable output, same composition and charge, "
        "idempotent; distinct non-trivial = distinct inputs in which the library's own functional-group query "
        "finds an enol or hemiketal group (a rewrite is attempted)")
ASSUMPTIONS = ["domain: non-empty valid closed-shell SMILES (open-shell spellings are shorthand in this code base: the repository's own "
               "test test_hemiketal_transformation_with_aam pins '[C:1]([O:2])([OH:3])' -> '[C:1]=[O:3].[OH2:2]', a result that gains hydrogens)", "composition by the independent RDKit oracle"]
TIMEOUT = {"quick": 900, "thorough": 3000}

R = ["C", "CC", "c1ccccc1", "C1CCCCC1", "CC(C)", "CCOC", "c1ccncc1", "C(F)(F)F", "CCN(C)C", "CS"]
FAMILIES = [
    ("enol", ["C=C(O)%s", "%sC(O)=C", "OC(%s)=CC", "%sC=CO", "C(=C%s)O", "OC=C%s", "%sC(=CC)O"]),
    ("cyclic_enol", ["OC1=CCCCC1", "C1=C(O)CCC1", "OC1=CC(%s)CC1", "Oc1ccccc1", "OC1=CCOC1"]),
    ("enolate", ["C=C([O-])%s", "%sC([O-])=C.[Na+]", "[O-]C=C%s", "[K+].[O-]C(%s)=CC"]),
    ("charged_o", ["[O-]C(O)%s", "%sC([O-])O", "%sC(O)[OH2+]", "C[O+](C)C(O)%s", "[O-]C(O)(%s)C"]),
    ("gem_diol", ["OC(O)%s", "%sC(O)O", "OC(O)(%s)C", "OC(%s)(O)%s", "OC(O)C(O)O"]),
    ("triol_ortho", ["OC(O)(O)%s", "OC(O)(O)O", "COC(OC)(OC)%s", "COC(O)(O)%s", "OC(O)(OC)%s"]),
    ("hemiketal", ["COC(O)%s", "COC(C)(O)%s", "OC1CCCCO1", "OC1(%s)CCCO1", "%sOC(O)C", "CCOC(O)(C)%s"]),
    ("metal_alkoxide", ["C=C(O[Na])%s", "%sC(O[Li])=C", "[Na]OC(O)%s", "C=CO[K]", "[Mg](OC=C)OC=C"]),
    ("polyenol", ["C=C(O)C=C(O)%s", "OC=CC=CO", "OC(%s)=CC(O)=C", "C=C(O)C(O)=C", "OC=C(O)%s"]),
    ("mixture", ["C=CO.CC(O)(O)%s", "OC(O)%s.OC(O)C", "C=C(O)%s.C=CO", "O.C=C(O)%s", "C=CO.[Na+].[Cl-]",
                 "COC(O)%s.C=C(C)O"]),
    ("mixed_groups", ["OC(O)C=C(O)%s", "C=C(O)C(O)(O)%s", "OC(=C)C(O)O", "C(O)(O)C=CO", "COC(O)C=C(O)%s"]),
    # a rewrite that creates a new group: the alkoxy group leaving a hemiketal is itself an enol(-ether), a
    # hemiketal of a hemiketal, an enol next to the carbon that loses its hydroxyl ...
    ("cascade", ["C=COC(C)(O)%s", "C=COC(O)%s", "CC=COC(O)(C)%s", "OC1(%s)CCC=CO1", "OC1(C)OC=CC1%s", "C=C(%s)OC(C)(C)O",
                 "OC(%s)(C)OC(C)(C)O", "COC(O)(OC(C)(C)O)%s", "C=COC(O)(O)%s", "OC(O)(OC=C)OC=C", "OC(%s)OC(C)=C",
                 "OC(C)(OC=C)OC(C)(O)%s", "C=COC(O)(%s)C=CO", "OC1(OC=C)CCCC1", "OC(OC(=C)%s)C=C"]),
    # SMILES syntax level: a ring-closure bond across a dot (the '.'-separated pieces are not SMILES)
    ("dot_closure", ["OC=C1.C1", "C1=CO.C1%s", "CC(O)(O)C1.C1", "OC=C1.C1.[Na+].[Cl-]", "C1(O)=C.C1%s", "OC1(%s)O.C1",
                     "C=C(O)C1.O1", "COC1(O)C.C1"]),
    ("no_group", ["%sC(=O)C", "%sCO", "%sC(=O)O", "%sOC", "c1ccccc1%s"]),
]


def generated(rng, n):
    out = []
    i = 0
    def one(fi):
        fam, tmpls = FAMILIES[fi % len(FAMILIES)]
        t = rng.choice(tmpls)
        return fam, t.replace("%s", rng.choice(R), 1).replace("%s", rng.choice(R))

    while len(out) < n and i < 20 * n:
        fam, s = one(i)
        i += 1
        if i % 4 == 0:  # two families side by side (e.g. an enolate next to an enol)
            fam2, s2 = one(rng.randrange(len(FAMILIES)))
            fam, s = fam + "+" + fam2, s + "." + s2
        elif i % 7 == 0:  # ... or in one molecule, joined through a methylene bridge
            fam2, s2 = one(rng.randrange(len(FAMILIES)))
            if "." not in s and "." not in s2:
                fam, s = fam + "~" + fam2, "C(%s)%s" % (s, s2)
        if oracle.in_domain_smiles(s):
            out.append((fam, s))
    return out


def orders(s, rng, k):
    """the same molecule in k random atom orders, plus one atom-mapped / explicit spelling and one with an
    isotope label on a carbon (bracket atoms without implicit hydrogens)"""
    from vgen import molgen
    m = oracle.parse(s)
    out = [s]
    for _ in range(k):
        try:
            out.append(Chem.MolToSmiles(m, canonical=False, doRandom=True))
        except Exception:
            pass
    try:
        out += molgen.respell(m, rng, k=1, maps=True)
        cs = [a for a in m.GetAtoms() if a.GetSymbol() == "C"]
        if cs:
            m2 = Chem.Mol(m)
            m2.GetAtomWithIdx(rng.choice(cs).GetIdx()).SetIsotope(13)
            lab = Chem.MolToSmiles(m2, canonical=False, doRandom=True)
            if oracle.in_domain_smiles(lab):
                out.append(lab)
    except Exception:
        pass
    return list(dict.fromkeys(out))


def plan(tier, seed):
    q = tier == "quick"
    shards = [{"gen": {"n": 70 if q else 1200, "salt": i}} for i in range(8 if q else 16)]
    rng = common.rng(seed, "C20")
    mols = [m for m in corpus.molecules() if "O" in m]
    pick = rng.sample(mols, 900 if q else 8000)
    shards += [{"mols": c} for c in common.stripe(pick, 6 if q else 16)]
    shards.append({"pipeline": 100 if q else 1500})
    return shards


_q = {}


def groups(s):
    if "fg" not in _q:
        from fgutils import FGQuery
        _q["fg"] = FGQuery()
    try:
        return sorted({g[0] for g in _q["fg"].get(s) if g[0] in ("enol", "hemiketal")})
    except Exception:
        return []


def check_one(s, res, std, where, fam=None):
    if not (isinstance(s, str) and s and oracle.in_domain_smiles(s)):
        res.count("out_of_domain")
        return
    res.ev()
    res.count("evaluated:" + where)
    g = groups(s)
    if g:
        res.case(s)
        res.count("rewrite_attempted")
        for x in g:
            res.add("groups", x)
    w = dict(case={"smiles": s}, groups=g, family=fam, where=where)
    try:
        out = std(s)
    except Exception as e:  # noqa
        res.viol("standardizer_raised", error=("%s: %s" % (type(e).__name__, e))[:200], **w)
        return
    if not isinstance(out, str) or oracle.parse(out) is None:
        res.viol("standardizer_returned_non_smiles", output=str(out)[:200], **w)
        return
    ci, co = oracle.comp(s), oracle.comp(out)
    if ci != co:
        d = dict(ci[0])
        for k, v in co[0].items():
            d[k] = d.get(k, 0) - v
        res.viol("standardizer_changed_composition", output=out,
                 lost={k: v for k, v in d.items() if v}, charge=[ci[1], co[1]], **w)
        return
    try:
        again = std(out)
    except Exception as e:  # noqa
        res.viol("standardizer_not_idempotent", output=out, second="raised %s" % type(e).__name__, **w)
        return
    if again != out:
        res.viol("standardizer_not_idempotent", output=out, second=str(again)[:200], **w)


def work(shard, res, tier, seed):
    import warnings
    warnings.filterwarnings("ignore")
    from synrbl.SynChemImputer.molecule_standardizer import MoleculeStandardizer
    std = MoleculeStandardizer()
    rng = common.rng(seed, "C20w", str(shard)[:60])
    if "replay" in shard:
        c = shard["replay"].get("case", {})
        if "smiles" in c:
            check_one(c["smiles"], res, std, "replay")
        return
    if "gen" in shard:
        gen = generated(rng, shard["gen"]["n"])
        for fam, s in gen:
            for v in orders(s, rng, 4):
                check_one(v, res, std, "generated", fam)
            res.add("families", fam)
        res.sample({"generated": [s for _, s in gen[:6]]})
    if "mols" in shard:
        for s in shard["mols"]:
            d = oracle.demap(s)
            if d is None:
                continue
            has = bool(groups(d))
            for v in orders(d, rng, 3 if has else 0):
                check_one(v, res, std, "corpus")
    if "pipeline" in shard:
        from vchk import rowlib
        b, _ = rowlib.balancer(0, 1, trace=False)
        real = b.mcs_method.smiles_standardizer[0]
        calls = []

        class Spy:
            def __call__(self, smiles):
                out = real(smiles)
                calls.append(smiles)
                return out

        b.mcs_method.smiles_standardizer[0] = Spy()
        try:
            cases = rowlib.corpus_cases(rng, shard["pipeline"], 10,
                                        [{"batch_size": None, "threshold": 0, "n_jobs": 1}])
            for c in cases:
                rowlib.run_case(c, trace=False)
        finally:
            b.mcs_method.smiles_standardizer[0] = real
        for s in calls:
            check_one(s, res, std, "pipeline")


def conclude_args(res, tier, seed):
    return {"need": {"evaluated:generated": 500, "evaluated:corpus": 300, "evaluated:pipeline": 10,
                     "rewrite_attempted": 300}, "min_cases": 200}
