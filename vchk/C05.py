"""C05 - one result row per input row, in input order, for every input form
(list[str], list[dict], Dataset(csv), Dataset(json), CLI)."""
import csv
import itertools
import json
import os
import shutil
import subprocess
import tempfile

from vchk import common, rowlib
from vmon import oracle, pipeline

RULE = ("sequences of length 1..8 over valid reactions (input-balanced, rule-based, MCS kinds) and malformed "
        "rows (unparsable SMILES, zero/two '>>', reagent form, empty side, empty string, missing value) x "
        "every position x batch sizes 1..n+1 x sources {list[str], list[dict], Dataset(csv), Dataset(json), "
        "CLI}; oracle: len(out)==len(in), row i describes input i (fragment multisets), malformed rows are "
        "not solved, CLI pass-through cell == the tag attached to that row; distinct non-trivial = distinct "
        "(sequence shape, batch size, source) with a malformed row or more than one batch")
ASSUMPTIONS = ["valid reactions in one sequence are pairwise distinct so a shift is observable",
               "a row 'describes' a valid input when its input_reaction has the same fragment multisets as "
               "the de-mapped input; for a malformed input the row must exist at that position and not be solved"]
TIMEOUT = {"quick": 900, "thorough": 3000}

VALID = [
    "CC(=O)O.OCC>>CC(=O)OCC.O", "CCO>>C=C.O", "[CH3:1][OH:2].[Na+].[Cl-]>>[CH3:1][OH:2].[Na+].[Cl-]",
    "CC(=O)Cl.N>>CC(N)=O.Cl",
    "CC(=O)O.OCC>>CC(=O)OCC", "CCBr.[OH-]>>CCO", "CC(=O)Cl.OC>>CC(=O)OC", "CCN.CC(=O)Cl>>CCNC(C)=O",
    "CC(=O)OCC>>CCO", "CC(=O)OC>>CC(=O)O", "CC(=O)NC>>CN", "c1ccccc1C(=O)OC>>OC",
    "CCCO>>CCC=O", "CC(C)=O>>CC(C)O",
    # valid but unusual spellings: explicit aromatic bonds / explicit hydrogens / ring closure across a dot
    "[cH]1:[cH]:[cH]:[cH]:[cH]:[c]:1-C(=O)Cl.N>>N-C(=O)-c1:c:c:c:c:c:1", "[H]OC([H])([H])C.CC(=O)Cl>>CCOC(C)=O",
    "C1.O1.CC(=O)Cl>>COC(C)=O",
    # valid reaction strings that carry a blank-separated title / CXSMILES block / trailing blanks
    "CC(=O)O.OCCC>>CC(=O)OCCC.O esterification", "C=CC.Br>>CC(C)Br |f:0.1|", "CCCCO>>C=CCC.O  ",
    "CC(=O)CC>>CC(O)CC C", "CCCCCO>>CCCCC=O pentanol oxidation",
]
MALFORMED = {
    "unparsable": "CC(C>>CCO",
    "bad_atom": "CCO>>C[Xx]C",
    "no_sep": "CCO",
    "two_sep": "CCO>>CC=O>>C",
    "reagent_form": "CCO>O>CC=O",
    "empty_string": "",
    "one_gt": "CCO>CC=O",
    "missing": None,
    "missing_nan": float("nan"),
    "empty_record": "<empty record>",
    # values that are not strings at all (JSON datasets and lists of dictionaries can carry them)
    "number": 5,
    "list_value": ["CCO>>CC=O", "CCO>>C=C.O"],
    "empty_list": [],
    "dict_value": {"smiles": "CCO>>CC=O"},
}
NONSTRING = {"number", "list_value", "empty_list", "dict_value"}
EMPTYSIDE = {"empty_product": "CCOC>>", "empty_reactant": ">>CCN"}
SOURCES = ["list_str", "list_dict", "csv", "json"]


def build(seq_kinds, rng):
    """seq_kinds: list of 'v' or malformed kind -> list of (kind, value)"""
    vals = rng.sample(VALID, min(len(VALID), sum(1 for k in seq_kinds if k == "v")))
    it = iter(vals)
    out = []
    for k in seq_kinds:
        if k == "v":
            out.append(("v", next(it)))
        elif k in EMPTYSIDE:
            out.append((k, EMPTYSIDE[k]))
        else:
            out.append((k, MALFORMED[k]))
    return out


def plan(tier, seed):
    rng = common.rng(seed, "C05")
    q = tier == "quick"
    cases = []
    kinds = list(MALFORMED) + list(EMPTYSIDE)

    def add(seq_kinds, bs, source):
        if source == "list_str" and ({"missing", "missing_nan", "empty_record"} & set(seq_kinds)):
            source = "list_dict"
        if source in ("list_str", "csv") and (NONSTRING & set(seq_kinds)):
            source = "json" if source == "csv" else "list_dict"
        cases.append({"seq": build(seq_kinds, rng), "bs": bs, "source": source})

    si = 0
    ns = [1, 3, 4] if q else [1, 2, 3, 4, 5]
    for n in ns:
        for k in kinds:
            for pos in range(n):
                sk = ["v"] * n
                sk[pos] = k
                bss = [1, 2, None] if q else list(range(1, n + 2)) + [None]
                for bs in bss:
                    srcs = [SOURCES[si % 4]] if q else SOURCES
                    si += 1
                    for s in srcs:
                        add(sk, bs, s)
    # pairs of malformed rows, all-malformed, all-valid multi-batch
    for i in range(40 if q else 400):
        n = rng.randint(2, 8)
        sk = ["v"] * n
        for p in rng.sample(range(n), rng.randint(2, min(n, 3))):
            sk[p] = rng.choice(kinds)
        add(sk, rng.choice([1, 2, 3, n, n + 1, None]), rng.choice(SOURCES))
    for i in range(8 if q else 40):
        n = rng.randint(1, 4)
        add([rng.choice(kinds) for _ in range(n)], rng.choice([1, 2, None]), rng.choice(SOURCES))
    for i in range(16 if q else 120):
        n = rng.randint(2, 8)
        add(["v"] * n, rng.choice([1, 2, 3, n - 1, n, n + 1]), rng.choice(SOURCES))
    rng.shuffle(cases)
    shards = [{"cases": c} for c in common.stripe(cases, 15 if q else 44)]
    for i in range(6 if q else 48):
        n = rng.randint(3, 6)
        sk = ["v"] * n
        if i % 3 != 2:
            for p in rng.sample(range(n), 1 + (i % 2)):
                sk[p] = rng.choice([k for k in kinds if k != "empty_record" and k not in NONSTRING])
        if sk[0] != "v":
            sk[0], sk[-1] = sk[-1], sk[0]  # the CLI validates the first row itself
        if sk[0] != "v":
            sk[0] = "v"
        seq = build(sk, rng)
        if seq[0][1] not in VALID[:14]:  # the CLI validates the first row with its own reaction parser
            seq[0] = ("v", VALID[i % 14])
        shards.append({"cli": {"seq": seq, "bs": [None, 2, 1][i % 3],
                               "cols": ["tag"] if i % 2 else ["tag", "tag2"], "blank_lines": i % 2 == 0}})
    return shards


def make_input(case, tmp):
    seq = case["seq"]
    src = case["source"]
    if src == "list_str":
        return [v for _, v in seq]
    dicts = [({} if k == "empty_record" else {"reaction": v, "tag": "t%d" % i}) for i, (k, v) in enumerate(seq)]
    if src == "list_dict":
        return dicts
    from synrbl.SynUtils.batching import Dataset
    if src == "json":
        p = os.path.join(tmp, "in.json")
        with open(p, "w") as f:
            json.dump(dicts, f)
        return Dataset(p)
    p = os.path.join(tmp, "in.csv")
    with open(p, "w", newline="") as f:
        w = csv.writer(f)
        w.writerow(["reaction", "tag"])
        for d in dicts:
            if not d:
                f.write("\r\n")  # a blank line: the dataset reader yields an empty record for it
                continue
            w.writerow(["" if not isinstance(d["reaction"], str) else d["reaction"], d["tag"]])
    return Dataset(p)


def describe(kind, val, row):
    """None if row describes the input, else a reason"""
    if not isinstance(row, dict):
        return "row is not a dict"
    if kind == "v" or kind in EMPTYSIDE:
        want = oracle.rfrags(val)
        got = oracle.rfrags(row.get("input_reaction"))
        if got is None or got != want:
            return "input_reaction does not describe the input at this position"
        if kind == "v":
            out = oracle.rfrags(row.get("reaction"))
            if out is None or not (oracle.contains(out[0], want[0]) and oracle.contains(out[1], want[1])):
                return "reaction does not contain the input at this position"
        return None
    if row.get("solved") is True:
        return "malformed row marked solved"
    return None


def judge_rows(seq, rows, err, res, witness):
    res.ev()
    n = len(seq)
    if err is not None:
        res.viol("rebalance_raised", error=err[:300], **witness)
        return
    if rows is None or len(rows) != n:
        res.viol("row_count_differs", n_in=n, n_out=None if rows is None else len(rows),
                 malformed_kinds=sorted({k for k, _ in seq if k != "v"}), **witness)
        return
    for i, ((kind, val), row) in enumerate(zip(seq, rows)):
        why = describe(kind, val, row)
        if why:
            res.viol("row_does_not_describe_its_input", pos=i, row_kind=kind, why=why,
                     row={k: row.get(k) for k in ("input_reaction", "reaction", "solved")},
                     malformed_kinds=sorted({k for k, _ in seq if k != "v"}), **witness)
            return


def run_api(case, res):
    tmp = tempfile.mkdtemp(prefix="verif_c05_")
    try:
        b, _ = rowlib.balancer(0, 1, trace=False)
        inp = make_input(case, tmp)
        stats = {}
        import contextlib
        import io
        err, rows = None, None
        buf = io.StringIO()
        try:
            with contextlib.redirect_stderr(buf), contextlib.redirect_stdout(buf):
                rows = b.rebalance(inp, output_dict=True, stats=stats, batch_size=case["bs"])
        except Exception as e:  # noqa
            err = "%s: %s" % (type(e).__name__, e)
        shape = [k for k, _ in case["seq"]]
        w = dict(case={"seq": case["seq"], "bs": case["bs"], "source": case["source"]})
        judge_rows(case["seq"], rows, err, res, w)
        res.count("source:" + case["source"])
        n = len(shape)
        if any(k != "v" for k in shape) or (case["bs"] and case["bs"] < n):
            res.case([shape, case["bs"], case["source"]])
        for k in set(shape):
            res.add("kinds", k)
    finally:
        shutil.rmtree(tmp, ignore_errors=True)


def run_cli(spec, res):
    tmp = tempfile.mkdtemp(prefix="verif_c05cli_")
    try:
        src = os.path.join(tmp, "in.csv")
        dst = os.path.join(tmp, "out.csv")
        seq = spec["seq"]
        with open(src, "w", newline="") as f:
            w = csv.writer(f)
            w.writerow(["reaction", "tag", "tag2"])
            for i, (_, v) in enumerate(seq):
                w.writerow(["" if not isinstance(v, str) else v, "t%d" % i, "u%d" % i])
                if spec.get("blank_lines") and i in (1, len(seq) - 2):
                    f.write("\r\n")  # an empty line between records is not a record
        cmd = [common.PY, "-m", "synrbl", "run", src, "-o", dst, "-p", "1",
               "--out-columns", ",".join(spec["cols"])]
        if spec["bs"]:
            cmd += ["-b", str(spec["bs"])]
        p = subprocess.run(cmd, cwd=tmp, capture_output=True, text=True, timeout=900,
                           env=common.worker_env())
        res.ev()
        res.count("cli_runs")
        shape = [k for k, _ in seq]
        res.case([shape, spec["bs"], "cli"])
        wit = dict(cli=spec)
        if p.returncode != 0 or not os.path.exists(dst):
            res.viol("cli_failed", rc=p.returncode, stderr=p.stderr[-600:],
                     malformed_kinds=sorted({k for k in shape if k != "v"}), **wit)
            return
        with open(dst, newline="") as f:
            rows = list(csv.DictReader(f))
        if len(rows) != len(seq):
            res.viol("row_count_differs", n_in=len(seq), n_out=len(rows), where="cli",
                     malformed_kinds=sorted({k for k in shape if k != "v"}), **wit)
            return
        for i, ((kind, val), row) in enumerate(zip(seq, rows)):
            for c, pre in (("tag", "t"), ("tag2", "u")):
                if c in spec["cols"] and row.get(c) != "%s%d" % (pre, i):
                    res.viol("passthrough_column_misplaced", pos=i, column=c, got=row.get(c), where="cli",
                             malformed_kinds=sorted({k for k in shape if k != "v"}), **wit)
                    return
            row = dict(row)
            row["solved"] = row.get("solved") == "True"
            if kind in ("missing", "missing_nan"):
                continue
            why = describe(kind, val, row)
            if why:
                res.viol("row_does_not_describe_its_input", pos=i, row_kind=kind, why=why, where="cli",
                         malformed_kinds=sorted({k for k in shape if k != "v"}), **wit)
                return
    finally:
        shutil.rmtree(tmp, ignore_errors=True)


def work(shard, res, tier, seed):
    if "replay" in shard:
        v = shard["replay"]
        if "cli" in v:
            run_cli(v["cli"], res)
        else:
            run_api(v["case"], res)
        return
    if "cli" in shard:
        run_cli(shard["cli"], res)
        return
    for case in shard["cases"]:
        run_api(case, res)
        if len(res.samples) < 2:
            res.sample(case)


def conclude_args(res, tier, seed):
    return {"need": {"cli_runs": 3, "source:csv": 10, "source:json": 10, "source:list_dict": 10,
                     "source:list_str": 10}, "min_cases": 50}
