"""C13 - the confidence threshold only demotes low-confidence MCS results."""
import math
import re
import time

from vchk import common, rowlib
from vmon import oracle, pipeline
from vgen import corpus
from vgen import reactions as G

RULE = ("the same batch (fast MCS reactions + rule-based, input-balanced and declined ones, MCS rows placed first, "
        "last and interleaved) is run through the real Balancer at thresholds {0, 1} + every observed confidence c, "
        "nextafter(c, +-inf), c +- 0.0004, midpoints between observed confidences and random values; a third of the batches also with the result "
        "cache switched on (ascending and descending threshold order over a fresh cache directory); compared with "
        "the threshold-0 run: confidence unchanged and within [0,1], MCS rows solved iff reported confidence >= t, "
        "demoted rows name t, all other rows identical, monotone in t; distinct non-trivial = distinct (reaction, t) "
        "with t within 0.0005 of an observed confidence or between two observed confidences")
ASSUMPTIONS = ["reactions whose stand-alone run is slow (>0.6 s) are not used, rows showing a timeout text in any run "
               "are excluded from run-vs-run comparison and counted (wall-clock taint)",
               "'names the threshold' = the issue text contains 'threshold' and a number equal to t as percent or "
               "fraction to the printed precision"]
TIMEOUT = {"quick": 1200, "thorough": 3400}
COLS = ("reaction", "solved", "solved_by", "confidence", "rules", "issue")


def plan(tier, seed):
    q = tier == "quick"
    rng = common.rng(seed, "C13")
    n = 10 if q else 40
    shards = []
    for i in range(n):
        shards.append({"salt": i, "n_mcs": 6 if q else 8, "n_other": 4, "n_random_t": 4 if q else 8,
                       "layout": ["mcs_first", "others_first", "interleaved"][i % 3]})
    return shards


def names_threshold(issue, t):
    if not isinstance(issue, str) or "threshold" not in issue.lower():
        return False
    for m in re.finditer(r"(\d+(?:\.\d+)?)\s*%", issue):
        if abs(float(m.group(1)) - t * 100) <= 0.00501:
            return True
    for m in re.finditer(r"(?<![\d.])(\d?\.\d+|[01])(?![\d.%])", issue):
        if abs(float(m.group(1)) - t) <= 0.0000501 + 1e-12:
            return True
    return False


def tainted(row):
    return rowlib.tainted(row)


def select(rng, b, n_mcs, n_other, res):
    """pick fast reactions by running candidates alone at threshold 0"""
    rows = corpus.stratified_sample(rng, 80)
    cands = [r["reaction"] for r in rows] + [rx for _, rx in G.deletions(rng, 6)] + \
            [rx for _, rx in G.redox_family(rng, 4)] + [rx for _, rx in G.spectator_laden(rng, 10)]
    rng.shuffle(cands)
    mcs, other = [], []
    for rx in cands:
        if len(mcs) >= n_mcs and len(other) >= n_other:
            break
        if not oracle.in_domain_rsmi(rx):
            continue
        t0 = time.process_time()  # CPU time: the selection must not depend on machine load
        out, _, err = pipeline.run(b, [rx])
        dt = time.process_time() - t0
        if err or not out or dt > 0.6:
            res.count("candidates_too_slow_or_failed")
            continue
        if out[0].get("solved_by") == "mcs-based" and out[0].get("confidence") is not None:
            if len(mcs) < n_mcs:
                mcs.append(rx)
        elif len(other) < n_other:
            other.append(rx)
    return mcs, other


def work(shard, res, tier, seed):
    if "replay" in shard:
        v = shard["replay"]
        inputs, ts = v["inputs"], [0] + list(v["thresholds"])
        b, _ = rowlib.balancer(0, 1, trace=False)
        if v.get("cached"):
            b.confidence_threshold = 0
            base, _, _ = pipeline.run(b, inputs)
            confs = sorted({r["confidence"] for r in base if r.get("solved_by") == "mcs-based"
                            and isinstance(r.get("confidence"), float)})
            cached_sweeps(inputs, base, confs, res)
            return
        compare(b, inputs, sorted(set(ts)), res)
        return
    rng = common.rng(seed, "C13w", shard["salt"])
    b, _ = rowlib.balancer(0, 1, trace=False)
    mcs, other = select(rng, b, shard["n_mcs"], shard["n_other"], res)
    if len(mcs) < 2:
        res.incon("shard found fewer than 2 fast MCS reactions")
        return
    if shard["layout"] == "mcs_first":
        inputs = mcs + other
    elif shard["layout"] == "others_first":
        inputs = other + mcs
    else:
        inputs = []
        a, o = list(mcs), list(other)
        while a or o:
            if o:
                inputs.append(o.pop(0))
            if a:
                inputs.append(a.pop(0))
    res.add("layouts", shard["layout"])
    b.confidence_threshold = 0
    base, _, err = pipeline.run(b, inputs)
    if err or base is None or len(base) != len(inputs):
        res.incon("base run failed")
        return
    confs = sorted({r["confidence"] for r in base if r.get("solved_by") == "mcs-based"
                    and isinstance(r.get("confidence"), float)})
    ts = {0.0, 1.0}
    for c in confs:
        ts.update([c, math.nextafter(c, math.inf), math.nextafter(c, -math.inf), c + 0.0004, c - 0.0004,
                   round(c, 3), round(c, 2)])
    for x, y in zip(confs, confs[1:]):
        ts.add((x + y) / 2)
    for _ in range(shard["n_random_t"]):
        ts.add(round(rng.random(), 4))
    ts = sorted(t for t in ts if 0.0 <= t <= 1.0)
    compare(b, inputs, ts, res, base=base, confs=confs)
    if shard["salt"] % 3 == 0 and confs:
        cached_sweeps(inputs, base, confs, res)


def cached_sweeps(inputs, base, confs, res):
    """the same judgement with the result cache switched on (fresh cache directory per sweep): thresholds just
    below / at / just above every observed confidence, once in ascending and once in descending order, so that a
    cache entry written at one threshold is on disk when its neighbour is asked for"""
    import shutil
    import tempfile
    ts = set()
    for c in confs:
        ts.update([c - 0.0004, c, c + 0.0004])
    ts = sorted(t for t in ts if 0.0 <= t <= 1.0)
    for order in (ts, ts[::-1]):
        tmp = tempfile.mkdtemp(prefix="verif_c13c_")
        try:
            bc = pipeline.make_balancer(confidence_threshold=0, n_jobs=1, cache=True, cache_dir=tmp)
            compare(bc, inputs, ts, res, base=base, confs=confs, run_order=order)
            res.count("cached_sweeps")
        finally:
            shutil.rmtree(tmp, ignore_errors=True)


def compare(b, inputs, ts, res, base=None, confs=None, run_order=None):
    if base is None:
        b.confidence_threshold = 0
        base, _, _ = pipeline.run(b, inputs)
        confs = sorted({r["confidence"] for r in base if r.get("solved_by") == "mcs-based"
                        and isinstance(r.get("confidence"), float)})
    runs = {}
    try:
        for t in (run_order or ts):
            b.confidence_threshold = t
            rows, _, err = pipeline.run(b, inputs)
            runs[t] = rows if (not err and rows is not None and len(rows) == len(inputs)) else None
    finally:
        b.confidence_threshold = 0
    # the same object back at the default threshold: must reproduce the first run (no state carried over)
    again, _, err2 = pipeline.run(b, inputs)
    res.ev()
    res.count("back_to_zero_runs")
    if err2 or again is None or [{k: r.get(k) for k in COLS} for r in again] != [{k: r.get(k) for k in COLS} for r in base]:
        only_mcs = again is not None and len(again) == len(base) and all(
            "mcs-based" in (x.get("solved_by"), y.get("solved_by"))
            for x, y in zip(base, again) if {k: x.get(k) for k in COLS} != {k: y.get(k) for k in COLS})
        if rowlib.machine_busy() and only_mcs and not err2:
            res.count("mcs_row_differences_not_judged(busy machine)")
        elif not any(tainted(r) for r in (again or [])) and not any(tainted(r) for r in base):
            res.viol("threshold_zero_run_differs_after_other_thresholds", inputs=inputs, thresholds=ts[-1:],
                     case={"reaction": inputs[0], "threshold": 0})
    busy = rowlib.machine_busy()
    if busy:
        res.count("sweeps_on_a_busy_machine")
    taint = set()
    for t, rows in runs.items():
        for i, r in enumerate(rows or []):
            if tainted(r) or tainted(base[i]):
                taint.add(i)
    res.count("rows_tainted_by_timeouts", len(taint))
    prev_solved = {}
    for t in ts:
        rows = runs[t]
        if rows is None:
            res.viol("run_failed_at_threshold", threshold=t, inputs=inputs, thresholds=[t])
            continue
        for i, (r0, r) in enumerate(zip(base, rows)):
            if i in taint:
                continue
            res.ev()
            w = dict(case={"reaction": inputs[i], "threshold": t}, inputs=inputs, thresholds=[t],
                     cached=bool(getattr(b, "cache", False)), run_order=list(run_order) if run_order else None,
                     row={k: r.get(k) for k in COLS}, base_row={k: r0.get(k) for k in COLS})
            is_mcs = r0.get("solved_by") == "mcs-based" and r0.get("solved") is True
            if is_mcs:
                res.count("mcs_rows_evaluated")
                c0, c = r0.get("confidence"), r.get("confidence")
                near = any(abs(t - x) <= 0.0005 for x in confs) or (confs and confs[0] < t < confs[-1])
                if near:
                    res.case([inputs[i], t])
                if c != c0 and busy:
                    # another run of the same search gave another result on a busy machine (an inner wall-clock
                    # budget may have fired silently): not judged
                    res.count("mcs_row_differences_not_judged(busy machine)")
                    continue
                if c != c0:
                    res.viol("confidence_depends_on_threshold", **w)
                    continue
                if not (isinstance(c, float) and 0.0 <= c <= 1.0):
                    res.viol("confidence_out_of_range", **w)
                    continue
                want = c >= t
                if bool(r.get("solved")) != want:
                    res.viol("solved_flag_disagrees_with_confidence_vs_threshold", want_solved=want, **w)
                    continue
                if not want:
                    res.count("demotions_evaluated")
                    if not names_threshold(r.get("issue"), t):
                        res.viol("demoted_row_does_not_name_threshold", **w)
                    if r.get("solved_by") != "mcs-based":
                        # not asserted: the property does not say which method label a demoted row carries
                        res.count("demoted_rows_without_mcs_label(not asserted)")
                else:
                    if {k: r.get(k) for k in COLS} != {k: r0.get(k) for k in COLS}:
                        if busy:
                            res.count("mcs_row_differences_not_judged(busy machine)")
                        else:
                            res.viol("kept_mcs_row_differs_between_thresholds", **w)
            else:
                res.count("other_rows_evaluated")
                if {k: r.get(k) for k in COLS} != {k: r0.get(k) for k in COLS}:
                    res.viol("non_mcs_row_depends_on_threshold", **w)
            # monotonicity
            if i in prev_solved and not prev_solved[i][1] and r.get("solved"):
                res.viol("raising_threshold_solved_a_row", lower_threshold=prev_solved[i][0], **w)
            prev_solved[i] = (t, bool(r.get("solved")))
    res.count("thresholds_run", len(ts))
    if len(res.samples) < 2:
        res.sample({"inputs": inputs[:3], "observed_confidences": confs, "thresholds": ts[:12]})


def conclude_args(res, tier, seed):
    return {"need": {"mcs_rows_evaluated": 300, "other_rows_evaluated": 100, "demotions_evaluated": 100,
                     "thresholds_run": 60, "back_to_zero_runs": 5, "cached_sweeps": 4}, "min_cases": 100}
