"""C03 - a declined reaction is returned untouched and with a reason; solved
rows name one of the three methods and carry no issue; carbon-excess products
are always declined (default threshold)."""
from vchk import common, rowlib
from vmon import oracle
from vgen import reactions as G

RULE = ("cases run through the real Balancer.rebalance (default threshold 0); oracle = string "
        "equality of reaction vs input_reaction for unsolved rows, non-empty issue, method names, "
        "independent carbon count; distinct non-trivial = distinct (declined input, edit signature) "
        "where the signature is the sequence of stages that changed the row's text before the revert")
ASSUMPTIONS = [
    "rows are plain SMILES strings (they do not pre-populate the tool's output columns)",
    "edit signatures come from snapshots after each stage taken by instance-level wrappers",
]
TIMEOUT = {"quick": 900, "thorough": 3000}
METHODS = ("input-balanced", "rule-based", "mcs-based")
CFGS = [
    {"batch_size": None, "threshold": 0, "n_jobs": 1},
    {"batch_size": 4, "threshold": 0, "n_jobs": 1},
    {"batch_size": 1, "threshold": 0, "n_jobs": 1},
]


def plan(tier, seed):
    rng = common.rng(seed, "C03")
    q = tier == "quick"
    cases = []
    cases += rowlib.corpus_cases(rng, 200 if q else 5032, 10 if q else 24, CFGS)
    cases += rowlib.gen_cases(G.two_sided_oxygen(rng, 120 if q else 800), 8, CFGS, "both")
    cases += rowlib.gen_cases(G.side_swapped(rng, 60 if q else 800), 6, CFGS, "swap")
    cases += rowlib.gen_cases(G.additions(rng, 100 if q else 1500), 8, CFGS, "add")
    cases += rowlib.gen_cases(G.deletions(rng, 40 if q else 600), 8, CFGS, "del")
    cases += rowlib.gen_cases(G.redox_family(rng, 68 if q else 600), 6, CFGS, "redox")
    cases += rowlib.gen_cases(G.marker_collisions(rng, 60 if q else 600), 8, CFGS, "marker")
    cases += rowlib.gen_cases(G.heavy_unbalanced(rng, 24 if q else 200), 8, CFGS, "heavy")
    cases += rowlib.gen_cases(G.spectator_laden(rng, 32 if q else 400), 8, CFGS, "spect")
    cases += rowlib.gen_cases(G.zero_confidence(rng, 18 if q else 120), 6, CFGS, "zeroconf")
    giant = [("giant_%d" % n, "C" * n + "O>>" + "C" * n + "OCO") for n in ((1001, 1300) if q else (999, 1000, 1001, 1300, 2100))]
    giant += [("giant_bal_%d" % n, "C" * n + "O.C=O>>" + "C" * n + "OCO") for n in (1001,)]
    cases += rowlib.gen_cases(giant, 2, CFGS[:1], "giant")
    nj = rowlib.corpus_cases(rng, 24 if q else 200, 12,
                             [{"batch_size": None, "threshold": 0, "n_jobs": 4}], tag="nj4")
    shards = rowlib.spread(cases, 16 if q else 48)
    shards += [{"cases": [c]} for c in nj]
    return shards


def judge(case, out, res):
    if not rowlib.aligned(case, out):
        res.count("cases_not_aligned(C05)")
        return
    cfg = case.get("cfg") or {}
    for pos, (inp, row) in enumerate(zip(case["inputs"], out["rows"])):
        raw = rowlib.raw_of(inp)
        if not oracle.in_domain_rsmi(raw):
            res.count("out_of_domain")
            continue
        res.ev()
        ir, rx = row.get("input_reaction"), row.get("reaction")
        solved = row.get("solved")
        issue = row.get("issue")
        w = dict(input=raw, input_reaction=ir, reaction=rx, solved=solved,
                 solved_by=row.get("solved_by"), issue=issue)
        base = dict(case=w, cfg=cfg, inputs=case["inputs"], pos=pos)
        if "|fault:" in str(case.get("tag")):
            base["fault"] = case["tag"].split("|fault:")[1]
        sig = rowlib.edit_sig(out, pos, ir)
        if solved is not True:
            res.count("rows_declined")
            res.add("edit_signatures", "/".join(sig) or "-")
            res.add("issues", str(issue)[:60])
            res.case([raw, sig])
            if rx != ir:
                res.viol("declined_row_altered", signature=list(sig), **base)
            if not (isinstance(issue, str) and issue.strip() != ""):
                res.viol("declined_row_without_reason", signature=list(sig), **base)
        else:
            res.count("rows_solved")
            if row.get("solved_by") == "mcs-based" and row.get("confidence") == 0:
                res.count("mcs_rows_solved_with_confidence_equal_to_default_threshold")
            if row.get("solved_by") not in METHODS:
                res.viol("solved_row_without_method", **base)
            if not (issue is None or issue == "" or (isinstance(issue, float) and issue != issue)):
                res.viol("solved_row_with_issue", **base)
            sp = oracle.split_rsmi(raw)
            cr, cp = oracle.carbon_count(sp[0]), oracle.carbon_count(sp[1])
            if cp > cr:
                res.count("carbon_excess_inputs")
                res.viol("carbon_excess_product_solved", carbons=[cr, cp], **base)
        if solved is not True:
            sp = oracle.split_rsmi(raw)
            if oracle.carbon_count(sp[1]) > oracle.carbon_count(sp[0]):
                res.count("carbon_excess_inputs")


def faulted_case(case, res, where):
    """a transient failure in one of the late stages (reagent templates, second rule-based run): whatever rows
    come back must still obey the property (declined rows untouched and with a reason)"""
    b, tr = rowlib.balancer(0, 1, True)
    holder, meth = (b.post_processor, "fit") if where == "templates" else (b.rb_method, "run")
    orig = getattr(holder, meth)
    n = {"k": 0}

    def faulty(*a, **k):
        n["k"] += 1
        if where == "templates" or n["k"] % 2 == 0:
            raise OSError("injected transient failure in a late stage")
        return orig(*a, **k)

    setattr(holder, meth, faulty)
    try:
        out = rowlib.run_case(case)
    finally:
        setattr(holder, meth, orig)
    res.count("faulted_runs:" + where)
    if out["rows"] and len(out["rows"]) == len(case["inputs"]):
        res.count("faulted_runs_that_returned_rows")
        judge(dict(case, tag=case["tag"] + "|fault:" + where), out, res)


def work(shard, res, tier, seed):
    if "replay" in shard and shard["replay"].get("fault"):
        v = shard["replay"]
        faulted_case({"tag": "replay", "inputs": v["inputs"], "cfg": v.get("cfg")}, res, v["fault"])
        return
    if "replay" in shard:
        v = shard["replay"]
        case = {"tag": "replay", "inputs": v["inputs"], "cfg": v.get("cfg")}
        judge(case, rowlib.run_case(case), res)
        return
    for ci, case in enumerate(shard["cases"]):
        if ci == 0:
            # the same Balancer object was used with another threshold before (legitimate use); the judged
            # calls below run with the default threshold again
            pre = {"tag": "excursion", "inputs": case["inputs"][:4], "cfg": dict(case.get("cfg") or {}, threshold=0.99)}
            rowlib.run_case(pre)
            res.count("threshold_excursions")
        if ci % 4 == 1 and (case.get("cfg") or {}).get("n_jobs", 1) == 1:
            faulted_case(case, res, ["templates", "second_rule_run"][(ci // 4) % 2])
        out = rowlib.run_case(case)
        for m in out["missing_hooks"]:
            res.count("hook_missing:" + m)
        judge(case, out, res)
        if len(res.samples) < 3 and out["rows"]:
            for pos, row in enumerate(out["rows"]):
                if not row.get("solved"):
                    res.sample({"declined": row, "edit_signature":
                                list(rowlib.edit_sig(out, pos, row.get("input_reaction")))})
                    break


def conclude_args(res, tier, seed):
    sigs = [s for s in res.sets.get("edit_signatures", ()) if s != "-"]
    kw = {"need": {"rows_declined": 30, "rows_solved": 30, "carbon_excess_inputs": 10},
          "min_cases": 20, "extra": {"distinct_edit_signatures": len(sigs)}}
    if any(k.startswith("hook_missing:run_pipeline") for k in res.counters):
        # the private per-batch method could not be wrapped (renamed / split): edit signatures are a coverage
        # metric only - every verdict of this check comes from the returned rows - so the requirement is waived
        kw["extra"]["edit_signatures_waived"] = "private per-batch hook not found"
    elif len(sigs) < 2:
        res.incon("fewer than 2 distinct non-empty edit signatures among declined rows (%d)" % len(sigs))
    return kw
