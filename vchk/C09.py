"""C09 - fragment merging conserves atoms and its reported rules explain the
result (cut-merge round trip, reference expansion, conservation)."""
from rdkit import Chem

from vchk import common
from vmon import oracle
from vgen import corpus

RULE = ("for corpus and constructed molecules, every acyclic single bond between heavy atoms is cut; fragments are "
        "built independently of the pipeline (atoms removed, H-capped, written to SMILES and re-parsed, boundary = "
        "position of the cut atom in that SMILES, src_mol = parent, neighbor_index = the other cut atom) and given "
        "to the real merge(): two-fragment mode (round trip) and single-fragment mode (reference expansion by "
        "explicit-hydrogen surgery); plus constructed cases for the phosphorus / diazo / metal / catalyst rules and "
        "the conservation postcondition on every real merge call of pipeline runs; distinct non-trivial = distinct "
        "(molecule, bond, mode)")
ASSUMPTIONS = ["connectivity is compared on stereo-stripped canonical SMILES (stereo marks at the cut atoms are not claimed)",
               "an exception raised by merge() is not a C09 violation (the pipeline declines the row); it is counted"]
TIMEOUT = {"quick": 900, "thorough": 3000}
RESTRICTIONS = {"bond restriction", "S bond restriction"}


def nostereo(mol_or_smiles):
    m = oracle.parse(mol_or_smiles) if isinstance(mol_or_smiles, str) else Chem.Mol(mol_or_smiles)
    if m is None:
        return None
    Chem.RemoveStereochemistry(m)
    s = Chem.MolToSmiles(m)
    m2 = Chem.MolFromSmiles(s)
    return Chem.MolToSmiles(m2) if m2 is not None else s


def heavy(m):
    return sum(1 for a in m.GetAtoms() if a.GetAtomicNum() > 1)


def carbons(m):
    return sum(1 for a in m.GetAtoms() if a.GetAtomicNum() == 6)


def side_atoms(mol, a, b):
    """atoms reachable from a without crossing bond a-b"""
    seen, todo = {a}, [a]
    while todo:
        x = todo.pop()
        for n in mol.GetAtomWithIdx(x).GetNeighbors():
            j = n.GetIdx()
            if (x == a and j == b) or j in seen:
                continue
            seen.add(j)
            todo.append(j)
    return seen


def fragment(parent, keep, cut_atom):
    """-> (fragment smiles, boundary index, symbol) or None"""
    rw = Chem.RWMol(parent)
    rw.GetAtomWithIdx(cut_atom).SetAtomMapNum(999)
    for i in sorted(set(range(parent.GetNumAtoms())) - set(keep), reverse=True):
        rw.RemoveAtom(i)
    try:
        m = rw.GetMol()
        for a in m.GetAtoms():
            if a.GetAtomMapNum() == 999 and (a.GetNoImplicit() or a.GetNumExplicitHs() > 0 or a.GetIsAromatic()):
                a.SetNumExplicitHs(a.GetNumExplicitHs() + 1)  # H-cap where H is written explicitly
        Chem.SanitizeMol(m)
    except Exception:
        return None
    if oracle.has_radical(m):
        return None
    return spell(m, None)


def spell(m, rng):
    """write the (map-tagged) fragment to SMILES - canonical, or randomly rooted when rng is
    given - re-parse it and locate the boundary atom in the new atom order"""
    if rng is None:
        s = Chem.MolToSmiles(m)
    else:
        s = Chem.MolToSmiles(m, canonical=False, doRandom=True)
    m2 = Chem.MolFromSmiles(s)
    if m2 is None:
        return None
    idx = [a.GetIdx() for a in m2.GetAtoms() if a.GetAtomMapNum() == 999]
    if len(idx) != 1:
        return None
    m2.GetAtomWithIdx(idx[0]).SetAtomMapNum(0)
    # write without canonicalisation and read the boundary's new position from RDKit's output order
    s2 = Chem.MolToSmiles(m2, canonical=False)
    order = list(m2.GetPropsAsDict(True, True)["_smilesAtomOutputOrder"])
    new_idx = order.index(idx[0])
    m3 = Chem.MolFromSmiles(s2)
    if m3 is None or m3.GetNumAtoms() != m2.GetNumAtoms():
        return None
    if m3.GetAtomWithIdx(new_idx).GetSymbol() != m2.GetAtomWithIdx(idx[0]).GetSymbol():
        return None
    if m3.GetAtomWithIdx(new_idx).GetDegree() != m2.GetAtomWithIdx(idx[0]).GetDegree():
        return None
    return s2, new_idx, m3.GetAtomWithIdx(new_idx).GetSymbol()


def respelled(frag, rng):
    """the same fragment under another rooting (boundary index changes with it)"""
    fs, bi, sym = frag
    m = Chem.MolFromSmiles(fs)
    m.GetAtomWithIdx(bi).SetAtomMapNum(999)
    for _ in range(4):
        Chem.rdBase.SeedRandomNumberGenerator(rng.randrange(1 << 30))
        out = spell(m, rng)
        if out is not None and nostereo(out[0]) == nostereo(fs):
            return out
    return frag


def cuts(parent):
    out = []
    ri = parent.GetRingInfo()
    for b in parent.GetBonds():
        if b.GetBondType() != Chem.BondType.SINGLE or ri.NumBondRings(b.GetIdx()) > 0:
            continue
        i, j = b.GetBeginAtomIdx(), b.GetEndAtomIdx()
        out.append((i, j))
    return out


def ref_expand(frag_smiles, bidx, comp_smiles, comp_idx):
    """fragment bonded (single) to the compound, one H taken from each partner"""
    f = Chem.AddHs(Chem.MolFromSmiles(frag_smiles))
    c = Chem.AddHs(Chem.MolFromSmiles(comp_smiles))
    combo = Chem.RWMol(Chem.CombineMols(f, c))
    off = f.GetNumAtoms()

    def an_h(idx):
        for n in combo.GetAtomWithIdx(idx).GetNeighbors():
            if n.GetAtomicNum() == 1 and n.GetIsotope() == 0:  # an ordinary hydrogen, never an isotope label
                return n.GetIdx()
        return None
    h1, h2 = an_h(bidx), an_h(off + comp_idx)
    if h1 is None or h2 is None:
        return None
    combo.AddBond(bidx, off + comp_idx, Chem.BondType.SINGLE)
    for h in sorted((h1, h2), reverse=True):
        combo.RemoveAtom(h)
    try:
        m = combo.GetMol()
        Chem.SanitizeMol(m)
        return nostereo(Chem.RemoveHs(m))
    except Exception:
        return None


def general_checks(result, frag_mols, res, w, extra_heavy=0, extra_c=0):
    """valid, no open boundary, carbon + heavy-atom conservation"""
    from synrbl.SynMCSImputer.rules import ExpandRule, CompoundRule
    try:
        m = Chem.Mol(result.mol)
        Chem.SanitizeMol(m)
        ok = Chem.MolFromSmiles(result.smiles) is not None
    except Exception as e:  # noqa
        res.viol("merged_product_invalid", error=repr(e)[:150], **w)
        return False
    if not ok:
        res.viol("merged_product_invalid", smiles=result.smiles, **w)
        return False
    if len(result.boundaries) != 0:
        res.viol("merged_product_has_open_boundary", smiles=result.smiles, **w)
        return False
    names = [r.name for r in result.rules]
    add_h = 0
    for r in result.rules:
        if isinstance(r, ExpandRule):
            cm = Chem.MolFromSmiles(r.compound["smiles"])
            add_h += heavy(cm)
            extra_c += carbons(cm)
    want_h = sum(heavy(f) for f in frag_mols) + add_h + extra_heavy
    want_c = sum(carbons(f) for f in frag_mols) + extra_c
    if carbons(m) != want_c:
        res.viol("carbon_count_changed", smiles=result.smiles, rules=names, got=carbons(m), want=want_c, **w)
        return False
    if heavy(m) != want_h:
        res.viol("heavy_atoms_not_explained_by_rules", smiles=result.smiles, rules=names, got=heavy(m),
                 want=want_h, **w)
        return False
    return True


def one_cut(ps, parent, i, j, res, merge, CompoundSet, rng=None):
    A = side_atoms(parent, i, j)
    B = set(range(parent.GetNumAtoms())) - A
    fa, fb = fragment(parent, A, i), fragment(parent, B, j)
    if fa is None or fb is None:
        res.count("cut_not_constructible")
        return
    want = nostereo(parent)
    # --- two-fragment mode (order 2,3: the same fragments under random rootings)
    for order in (0, 1, 2, 3) if rng is not None else (0, 1):
        if order == 2:
            fa, fb = respelled(fa, rng), respelled(fb, rng)
        res.ev()
        res.count("two_fragment_merges")
        res.case([ps, i, j, "two", order])
        w = dict(case={"parent": ps, "bond": [i, j], "mode": "two_fragments", "order": order,
                       "fragments": [fa[0], fb[0]], "boundaries": [fa[1], fb[1]]})
        cs = CompoundSet()
        specs = [(fa, j), (fb, i)] if order % 2 == 0 else [(fb, i), (fa, j)]
        try:
            for (fs, bi, sym), nb in specs:
                c = cs.add_compound(fs, src_mol=ps)
                c.add_boundary(bi, symbol=sym, neighbor_index=nb)
            result = merge(cs)
        except Exception as e:  # noqa
            res.count("merge_raised")
            res.add("merge_exceptions", ("%s: %s" % (type(e).__name__, e))[:70])
            continue
        names = [r.name for r in result.rules]
        for n in names:
            res.add("rules_fired", n)
        fm = [Chem.MolFromSmiles(fa[0]), Chem.MolFromSmiles(fb[0])]
        if not general_checks(result, fm, res, w):
            continue
        got = nostereo(result.smiles)
        if set(names) & RESTRICTIONS:
            if "." not in got and "." not in want:
                res.viol("restriction_rule_reported_but_bond_formed", rules=names, smiles=result.smiles, **w)
        elif got != want:
            # no restriction rule reported: the original molecule must be back, whichever rules are named
            res.viol("cut_merge_round_trip_differs", rules=names, smiles=result.smiles, want=want, **w)
    # --- single-fragment mode
    from synrbl.SynMCSImputer.rules import ExpandRule
    for (fs, bi, sym), nb in ((fa, j), (fb, i)):
        res.ev()
        res.count("single_fragment_merges")
        res.case([ps, i, j, "one", nb])
        w = dict(case={"parent": ps, "bond": [i, j], "mode": "single_fragment", "fragments": [fs],
                       "boundaries": [bi], "neighbor": nb})
        cs = CompoundSet()
        try:
            c = cs.add_compound(fs, src_mol=ps)
            c.add_boundary(bi, symbol=sym, neighbor_index=nb)
            result = merge(cs)
        except Exception as e:  # noqa
            res.count("merge_raised")
            res.add("merge_exceptions", ("%s: %s" % (type(e).__name__, e))[:70])
            continue
        names = [r.name for r in result.rules]
        for n in names:
            res.add("rules_fired", n)
        if not general_checks(result, [Chem.MolFromSmiles(fs)], res, w):
            continue
        exp = [r for r in result.rules if isinstance(r, ExpandRule)]
        got = nostereo(result.smiles)
        if not exp:
            res.count("no_expansion_rule")
            if names or got != nostereo(fs):
                res.viol("fragment_changed_without_expansion_rule", rules=names, smiles=result.smiles, **w)
            continue
        if len(exp) == 1 and [n for n in names if n != exp[0].name] == ["default single bond"]:
            ref = ref_expand(fs, bi, exp[0].compound["smiles"], exp[0].compound["index"])
            res.count("reference_expansions")
            if ref is None:
                res.count("reference_expansion_not_constructible")
            elif ref != got:
                res.viol("expansion_differs_from_reported_rule", rules=names, smiles=result.smiles,
                         want=ref, **w)


CONSTRUCTED = [
    # (fragments [(smiles, boundary idx, src smiles, neighbor idx)], note)
    ([("O", 0, "CC(C)=O", 1), ("c1ccccc1P(c1ccccc1)c1ccccc1", 6, "c1ccccc1P(=CC)(c1ccccc1)c1ccccc1", 7)], "wittig"),
    ([("O", 0, "CC=O", 1), ("CP(C)C", 1, "CP(C)(C)=CC", 4)], "wittig2"),
    ([("O", 0, "CCO", 1), ("C[PH](C)=O", 1, "CP(C)(=O)Cl", 4)], "p_single"),
    ([("O", 0, "CC(C)=O", 1), ("C[PH](C)=O", 1, "CP(C)(=O)Cl", 4)], "p_double_change"),
    ([("CS", 1, "CSCl", 2), ("Cl", 0, "CSCl", 1)], "s_restriction"),
    ([("CO", 1, "COCl", 2), ("Cl", 0, "COCl", 1)], "restriction"),
    ([("C", 0, "C=CC", 1), ("N#N", 0, "C=[N+]=[N-]", 0)], "diazo"),
    ([("C[Mg]Br", 1, "C[Mg]Br", 0)], "mg"),
    ([("C[Zn]C", 1, "C[Zn]C", 0)], "zn"),
    ([("C[Si](C)C", 1, "C[Si](C)(C)Cl", 4)], "si"),
    ([("C[BH]O", 1, "CB(O)Oc1ccccc1", 4)], "b"),
    ([("CC(=O)", 1, "CC(=O)OC", 3), ("CO", None, "CO", None)], "alcohol_catalyst"),
    ([("CC(=O)", 1, "CC(=O)OC", 3), ("O", None, "O", None)], "water_catalyst"),
    ([("CC", 1, "CCOC", 2), ("O", None, "O", None), ("CCN(CC)CC", None, "CCN(CC)CC", None)], "water_not_last"),
    ([("CC(=O)", 1, "CC(=O)OC", 3), ("O", None, "O", None), ("O", None, "O", None)], "two_waters"),
    ([("CC", 1, "CCOC", 2), ("O", None, "O", None), ("O", None, "O", None), ("O", None, "O", None)], "three_waters"),
    ([("CC(=O)", 1, "CC(=O)OC", 3), ("CO", None, "CO", None), ("O", None, "O", None), ("O", None, "O", None)], "alcohol_and_waters"),
    ([("CC", 1, "CCSC", 2)], "thioether"),
    ([("CC(=O)", 1, "CC(=O)SC", 3)], "thioester"),
    ([("CC(=O)", 1, "CC(=O)NC", 3)], "amide"),
    ([("CN", 1, "CNC(C)=O", 2)], "n_next_to_c"),
    ([("CC", 1, "CCN", 2)], "c_next_to_n"),
]


# molecules with isotope-labelled hydrogens (atoms of the graph) and sulfur / oxygen - halogen bonds
LABELLED = [
    "[2H]C([2H])(O)CCc1ccccc1", "[2H]OC(C)=O", "[2H]C([2H])([2H])OC(=O)CC", "[2H]N(CC)C(C)=O", "CC([2H])(C)OCC",
    "[2H]c1ccccc1COC", "[3H]C(C)NCC", "[2H]C([2H])=CCOC", "CS(=O)(=O)Cl", "CSCl", "c1ccccc1S(=O)(=O)F", "CSBr",
    "CS(=O)Cl", "CCS(=O)(=O)I", "COCl", "CNCl", "[2H]C([2H])(Cl)S(=O)(=O)Cl", "CC(=O)SC([2H])([2H])C",
    "[2H]OCCOC(C)=O", "C[Si](C)(C)OC([2H])C",
]


def constructed(res, merge, CompoundSet):
    import itertools
    for frs, note in CONSTRUCTED:
        for perm in itertools.permutations(range(len(frs))):
            res.ev()
            res.count("constructed_merges")
            res.case(["constructed", note, perm])
            w = dict(case={"constructed": note, "order": list(perm), "fragments": [f[0] for f in frs]})
            cs = CompoundSet()
            try:
                mols = []
                inactive_heavy = 0
                for k in perm:
                    fs, bi, src, nb = frs[k]
                    c = cs.add_compound(fs, src_mol=src)
                    if bi is not None:
                        c.add_boundary(bi, neighbor_index=nb)
                    mols.append(Chem.MolFromSmiles(fs))
                result = merge(cs)
            except Exception as e:  # noqa
                res.count("merge_raised")
                res.add("merge_exceptions", ("%s: %s" % (type(e).__name__, e))[:70])
                continue
            names = [r.name for r in result.rules]
            for n in names:
                res.add("rules_fired", n)
            removed = names.count("remove_water_catalyst")  # one report per removed water
            general_checks(result, mols, res, w, extra_heavy=-removed)


def plan(tier, seed):
    q = tier == "quick"
    rng = common.rng(seed, "C09")
    pool = corpus.molecules()
    n = 700 if q else 8000
    pick = []
    for s in rng.sample(pool, n):
        d = oracle.demap(s)
        if d and "." not in d and oracle.in_domain_smiles(d):
            pick.append(d)
    shards = [{"mols": c} for c in common.stripe(pick, 14 if q else 44)]
    shards.append({"mols": [m for m in LABELLED if oracle.parse(m) is not None], "labelled": True})
    shards.append({"constructed": True})
    shards.append({"pipeline": 60 if q else 600})
    return shards


def work(shard, res, tier, seed):
    import warnings
    warnings.filterwarnings("ignore")
    from rdkit import RDLogger
    RDLogger.DisableLog("rdApp.*")
    import logging
    logging.getLogger("synrbl").setLevel(logging.CRITICAL)
    logging.getLogger().setLevel(logging.CRITICAL)
    from synrbl.SynMCSImputer.merge import merge
    from synrbl.SynMCSImputer.structure import CompoundSet
    rng = common.rng(seed, "C09w", str(shard)[:80])
    if "replay" in shard:
        c = shard["replay"].get("case", {})
        if "parent" in c:
            p = Chem.MolFromSmiles(c["parent"])
            one_cut(c["parent"], p, c["bond"][0], c["bond"][1], res, merge, CompoundSet, rng)
        else:
            constructed(res, merge, CompoundSet)
        return
    if "mols" in shard:
        if shard.get("labelled"):
            res.count("labelled_or_sulfur_halide_molecules", len(shard["mols"]))
        for s in shard["mols"]:
            ps = Chem.MolToSmiles(Chem.MolFromSmiles(s))
            parent = Chem.MolFromSmiles(ps)
            for i, j in cuts(parent):
                one_cut(ps, parent, i, j, res, merge, CompoundSet, rng)
        res.sample({"parent": shard["mols"][0], "cuts": len(cuts(Chem.MolFromSmiles(shard["mols"][0])))})
    if "constructed" in shard:
        constructed(res, merge, CompoundSet)
    if "pipeline" in shard:
        pipeline_part(shard["pipeline"], seed, res)


def pipeline_part(n, seed, res):
    """conservation postcondition on every real merge() call of pipeline runs"""
    import synrbl.SynMCSImputer.mcs_based_method as M
    from vchk import rowlib
    rng = common.rng(seed, "C09p")
    orig = M.merge
    calls = []

    def spy(cset):
        frs = [(c.smiles, len(c.boundaries)) for c in cset.compounds]
        out = orig(cset)
        calls.append((frs, out))
        return out

    M.merge = spy
    try:
        cases = rowlib.corpus_cases(rng, n, 10, [{"batch_size": None, "threshold": 0, "n_jobs": 1}])
        for c in cases:
            rowlib.run_case(c, trace=False)
    finally:
        M.merge = orig
    for frs, out in calls:
        res.ev()
        res.count("pipeline_merges")
        names = [r.name for r in out.rules]
        removed = names.count("remove_water_catalyst")  # the reported rules have to explain every removed water
        mols = [Chem.MolFromSmiles(s) for s, _ in frs]
        if any(m is None for m in mols):
            continue
        general_checks(out, mols, res, dict(case={"pipeline_fragments": frs}), extra_heavy=-removed)
        for n_ in names:
            res.add("rules_fired", n_)


def conclude_args(res, tier, seed):
    return {"need": {"two_fragment_merges": 1000, "single_fragment_merges": 1000, "reference_expansions": 300,
                     "constructed_merges": 20, "pipeline_merges": 10, "labelled_or_sulfur_halide_molecules": 10}, "min_cases": 1000}
