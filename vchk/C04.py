"""C04 - an already balanced reaction passes through unchanged as
'input-balanced'; conversely the label implies a balanced, unchanged input."""
from vchk import common, rowlib
from vmon import oracle
from vgen import reactions as G

RULE = ("inputs = shipped curated reactions that the independent oracle finds balanced, their reversals, "
        "2x/3x multiples (also side by side with the reaction itself in one batch), unions, result rows of a first "
        "run fed back as dictionaries (completed rows are balanced now; input-balanced rows edited into unbalanced "
        "ones), ionic / heavy-element balanced constructions, and unbalanced corpus "
        "inputs for the converse; distinct non-trivial = distinct balanced inputs by canonical fragment "
        "multisets of both sides")
ASSUMPTIONS = ["'balanced' is decided by the independent RDKit composition oracle",
               "radical / dummy-atom inputs are out of domain, except lone [H] atoms (the tool's own placeholder for reducing equivalents)"]
TIMEOUT = {"quick": 900, "thorough": 3000}
CFGS = [
    {"batch_size": None, "threshold": 0, "n_jobs": 1},
    {"batch_size": 9, "threshold": 0, "n_jobs": 1},
]


REDOX_SPELLED_WITH_ATOMS = [
    "CC=O.[H].[H]>>CCO", "CC(C)=O.[H].[H]>>CC(C)O", "C=C.[H].[H]>>CC", "CC(=O)OC.[H].[H].[H].[H]>>CCO.CO",
    "CC#N.[H].[H].[H].[H]>>CCN", "O=Cc1ccccc1.[H].[H]>>OCc1ccccc1", "CC(=O)O.[H].[H].[H].[H]>>CCO.O",
    "[H].[H]>>[H][H]", "CC=O.[H]>>CC=O.[H]", "CC.[H].[H]>>[H][H].CC",
    "CCC(=O)CC.[H].[H]>>CCC(O)CC", "C#C.[H].[H].[H].[H]>>CC", "O=[N+]([O-])c1ccccc1.[H].[H].[H].[H].[H].[H]>>Nc1ccccc1.O.O",
]

def placeholder_balanced(rng, pick, n):
    """balanced reactions in which reducing equivalents are spelled as lone hydrogen atoms ([H]) - the spelling the
    tool itself uses for them; the only open-shell species admitted to this check (a lone [O] in an input is re-read as
    water by the atom-map stripper, see C15's closed-shell restriction, and stays outside the domain)"""
    out = [("redox_atoms", rx) for rx in REDOX_SPELLED_WITH_ATOMS]
    for t, rx in rng.sample(pick, min(n, len(pick))):
        a, _, b = rx.partition(">>")
        k = rng.choice([0, 1, 2])
        if k == 0:
            out.append((t + "|+2[H]", a + ".[H].[H]>>" + b + ".[H][H]"))
        elif k == 1:
            out.append((t + "|+[H]", a + ".[H]>>[H]." + b))
        else:
            out.append((t + "|[H]+4[H]", "[H]." + a + ".[H].[H].[H]>>[H][H]." + b + ".[H][H]"))
    return [p for p in out if oracle.balanced(p[1])]


def placeholder_only(raw):
    """every open-shell molecule of the reaction is a lone [H] atom"""
    sp = oracle.split_rsmi(raw)
    if sp is None:
        return False
    seen = False
    for side in sp:
        for m in side.split("."):
            if oracle.in_domain_smiles(m):
                continue
            if oracle.demap(m) != "[H]":
                return False
            seen = True
    return seen


def plan(tier, seed):
    rng = common.rng(seed, "C04")
    q = tier == "quick"
    base = G.balanced_corpus()
    pick = rng.sample(base, 600 if q else len(base))
    pairs = list(pick)
    pairs += G.reversals(rng.sample(pick, 300 if q else len(pick)))
    pairs += G.multiples(rng.sample(pick, 150 if q else len(pick)), 2)
    pairs += G.multiples(rng.sample(pick, 100 if q else len(pick)), 3)
    pairs += G.unions(rng, pick, 150 if q else 3000)
    pairs += G.ionic_balanced(rng, 200 if q else 2000)
    pairs += [p for p in G.dative(rng, 80 if q else 600) if oracle.balanced(p[1])]
    pairs += [p for p in G.dot_ring_closures(rng, 60 if q else 400) if oracle.balanced(p[1])]
    cases = rowlib.gen_cases(pairs, 30, CFGS, "bal")
    cases += rowlib.gen_cases(placeholder_balanced(rng, pick, 60 if q else 600), 10, CFGS, "atoms")
    # families in one batch: a reaction next to its own multiples and reversal (sides that consist of the same
    # molecule strings with other multiplicities meet in one batch)
    fam = []
    for t, rx in rng.sample(pick, 60 if q else 600):
        one = [(t, rx)]
        fam += one + G.multiples(one, 2) + G.reversals(one) + G.multiples(one, 3) + G.reversals(G.multiples(one, 2))
    for f in G.self_reaction_families(rng, 40 if q else 400):
        fam += f
    cases += rowlib.gen_cases(fam, 30, CFGS, "family")
    # converse: unbalanced inputs
    cases += rowlib.corpus_cases(rng, 100 if q else 1500, 10, CFGS, tag="unbal")
    cases += rowlib.gen_cases(G.heavy_unbalanced(rng, 40 if q else 400), 10, CFGS, "heavy")
    cases += rowlib.gen_cases(G.deletions(rng, 40 if q else 400), 10, CFGS, "del")
    cases += rowlib.gen_cases(G.charge_only_imbalance(rng, 60 if q else 400), 10, CFGS, "charge_only")
    cases += rowlib.gen_cases([p for p in G.dative(rng, 60 if q else 400) if not oracle.balanced(p[1])], 10, CFGS, "dative_unbal")
    return rowlib.spread(cases, 16 if q else 48)


def judge(case, out, res):
    if not rowlib.aligned(case, out):
        res.count("cases_not_aligned(C05)")
        return
    cfg = case.get("cfg") or {}
    for pos, (inp, row) in enumerate(zip(case["inputs"], out["rows"])):
        raw = rowlib.raw_of(inp)
        if not oracle.in_domain_rsmi(raw):
            if not placeholder_only(raw):
                res.count("out_of_domain")
                continue
            res.count("inputs_with_lone_H_atoms")
        res.ev()
        bal = oracle.balanced(raw)
        ir, rx, by = row.get("input_reaction"), row.get("reaction"), row.get("solved_by")
        w = dict(input=raw, input_reaction=ir, reaction=rx, solved=row.get("solved"), solved_by=by)
        base = dict(case=w, cfg=cfg, inputs=case["inputs"], pos=pos)
        if bal:
            res.count("balanced_inputs")
            f = oracle.rfrags(raw)
            res.case([sorted(f[0].items()), sorted(f[1].items())])
            if not (row.get("solved") is True and by == "input-balanced"):
                res.viol("balanced_input_not_input_balanced", **base)
            elif rx != ir or oracle.rfrags(rx) != f:
                res.viol("balanced_input_changed", **base)
        else:
            res.count("unbalanced_inputs")
            # (for rows that were fed back with the tool's own columns filled in, a label the caller wrote himself
            # on a row that comes back unsolved is not counted as the tool labelling it)
            stale = isinstance(inp, dict) and inp.get("solved_by") == "input-balanced" and row.get("solved") is not True
            if stale:
                res.count("refed_rows_unsolved_with_callers_own_label(not asserted)")
            if by == "input-balanced" and not stale:
                res.viol("input_balanced_label_on_unbalanced_input",
                         imbalance=oracle.imbalance(raw), **base)


def refeed(case, out, res):
    """second pass: the rows a first run returned (dictionaries carrying the tool's own columns) are the input.
    Rows the first pass completed are balanced now and must come back input-balanced and unchanged; rows that
    were input-balanced and are edited into an unbalanced reaction must lose that label."""
    rows2 = []
    for row in out["rows"]:
        r = dict(row)
        rx = r.get("reaction")
        if not isinstance(rx, str):
            return
        if r.get("solved_by") == "input-balanced":
            a, _, b = rx.partition(">>")
            ms = b.split(".")
            if len(ms) >= 2 and len(rows2) % 2 == 0:
                r["reaction"] = a + ">>" + ".".join(ms[:-1])  # a product molecule dropped
        rows2.append(r)
    case2 = {"tag": case.get("tag", "") + "|refeed", "inputs": rows2, "cfg": case.get("cfg")}
    out2 = rowlib.run_case(case2, trace=False)
    res.count("refed_cases")
    res.count("refed_rows", len(rows2))
    judge(case2, out2, res)


def work(shard, res, tier, seed):
    if "replay" in shard:
        v = shard["replay"]
        case = {"tag": "replay", "inputs": v["inputs"], "cfg": v.get("cfg")}
        judge(case, rowlib.run_case(case, trace=False), res)
        return
    for ci, case in enumerate(shard["cases"]):
        out = rowlib.run_case(case, trace=False)
        judge(case, out, res)
        if ci % 2 == 0 and rowlib.aligned(case, out):
            refeed(case, out, res)
        if len(res.samples) < 2 and out["rows"]:
            res.sample({"input": rowlib.raw_of(case["inputs"][0]), "row": out["rows"][0]})


def conclude_args(res, tier, seed):
    return {"need": {"balanced_inputs": 200, "unbalanced_inputs": 50, "refed_rows": 100}, "min_cases": 100}
