"""C04 - an already balanced reaction passes through unchanged as
'input-balanced'; conversely the label implies a balanced, unchanged input."""
from vchk import common, rowlib
from vmon import oracle
from vgen import reactions as G

RULE = ("inputs = shipped curated reactions that the independent oracle finds balanced, their reversals, "
        "2x/3x multiples, unions, ionic / heavy-element balanced constructions, and unbalanced corpus "
        "inputs for the converse; distinct non-trivial = distinct balanced inputs by canonical fragment "
        "multisets of both sides")
ASSUMPTIONS = ["'balanced' is decided by the independent RDKit composition oracle",
               "radical / dummy-atom inputs are out of domain"]
TIMEOUT = {"quick": 900, "thorough": 3000}
CFGS = [
    {"batch_size": None, "threshold": 0, "n_jobs": 1},
    {"batch_size": 9, "threshold": 0, "n_jobs": 1},
]


def plan(tier, seed):
    rng = common.rng(seed, "C04")
    q = tier == "quick"
    base = G.balanced_corpus()
    pick = rng.sample(base, 600 if q else len(base))
    pairs = list(pick)
    pairs += G.reversals(rng.sample(pick, 300 if q else len(pick)))
    pairs += G.multiples(rng.sample(pick, 150 if q else len(pick)), 2)
    pairs += G.multiples(rng.sample(pick, 100 if q else len(pick)), 3)
    pairs += G.unions(rng, pick, 150 if q else 3000)
    pairs += G.ionic_balanced(rng, 200 if q else 2000)
    pairs += [p for p in G.dot_ring_closures(rng, 60 if q else 400) if oracle.balanced(p[1])]
    cases = rowlib.gen_cases(pairs, 30, CFGS, "bal")
    # converse: unbalanced inputs
    cases += rowlib.corpus_cases(rng, 100 if q else 1500, 10, CFGS, tag="unbal")
    cases += rowlib.gen_cases(G.heavy_unbalanced(rng, 40 if q else 400), 10, CFGS, "heavy")
    cases += rowlib.gen_cases(G.deletions(rng, 40 if q else 400), 10, CFGS, "del")
    return rowlib.spread(cases, 16 if q else 48)


def judge(case, out, res):
    if not rowlib.aligned(case, out):
        res.count("cases_not_aligned(C05)")
        return
    cfg = case.get("cfg") or {}
    for pos, (inp, row) in enumerate(zip(case["inputs"], out["rows"])):
        raw = rowlib.raw_of(inp)
        if not oracle.in_domain_rsmi(raw):
            res.count("out_of_domain")
            continue
        res.ev()
        bal = oracle.balanced(raw)
        ir, rx, by = row.get("input_reaction"), row.get("reaction"), row.get("solved_by")
        w = dict(input=raw, input_reaction=ir, reaction=rx, solved=row.get("solved"), solved_by=by)
        base = dict(case=w, cfg=cfg, inputs=case["inputs"], pos=pos)
        if bal:
            res.count("balanced_inputs")
            f = oracle.rfrags(raw)
            res.case([sorted(f[0].items()), sorted(f[1].items())])
            if not (row.get("solved") is True and by == "input-balanced"):
                res.viol("balanced_input_not_input_balanced", **base)
            elif rx != ir or oracle.rfrags(rx) != f:
                res.viol("balanced_input_changed", **base)
        else:
            res.count("unbalanced_inputs")
            if by == "input-balanced":
                res.viol("input_balanced_label_on_unbalanced_input",
                         imbalance=oracle.imbalance(raw), **base)


def work(shard, res, tier, seed):
    if "replay" in shard:
        v = shard["replay"]
        case = {"tag": "replay", "inputs": v["inputs"], "cfg": v.get("cfg")}
        judge(case, rowlib.run_case(case, trace=False), res)
        return
    for case in shard["cases"]:
        out = rowlib.run_case(case, trace=False)
        judge(case, out, res)
        if len(res.samples) < 2 and out["rows"]:
            res.sample({"input": rowlib.raw_of(case["inputs"][0]), "row": out["rows"][0]})


def conclude_args(res, tier, seed):
    return {"need": {"balanced_inputs": 200, "unbalanced_inputs": 50}, "min_cases": 100}
