#!/bin/bash
# setup_cmd: offline install of icontract next to the repository's interpreter
# (into ./.deps, git-ignored) and the oracle self-test.
set -e
here="$(cd "$(dirname "${BASH_SOURCE[0]}")" && pwd)"
cd "$here"
if [ ! -d .deps/icontract ]; then
  PIP_NO_INDEX=1 /venv/bin/pip install -q --no-index --find-links /opt/veriftools/wheels \
     --target "$here/.deps" icontract deal >/dev/null 2>&1 || \
  PIP_NO_INDEX=1 /venv/bin/pip install -q --no-index --find-links /opt/veriftools/wheels \
     --target "$here/.deps" icontract
fi
PYTHONPATH="$here:$here/.deps" /venv/bin/python - <<'PY'
import icontract
from vmon import oracle
n = oracle.self_test()
import synrbl, os
print("setup ok: icontract", icontract.__version__, "oracle self-test", n, "probes; synrbl from", os.path.dirname(synrbl.__file__))
PY
