"""Shipped data as workload source (read from VERIF_REPO/Data)."""
import csv
import json
import os
import sys

REPO = os.environ.get("VERIF_REPO", "/repo")
csv.field_size_limit(10 ** 9)

_cache = {}


def validation_rows():
    """5 032 rows: id, reaction (atom-mapped input), expected_reaction, datasets"""
    if "val" not in _cache:
        rows = []
        with open(os.path.join(REPO, "Data/Validation_set/validation_set.csv")) as f:
            for r in csv.DictReader(f):
                rows.append({
                    "id": int(r["id"]),
                    "reaction": r["reaction"],
                    "expected": r["expected_reaction"] or None,
                    "datasets": r["datasets"],
                })
        _cache["val"] = rows
    return _cache["val"]


def raw_reactions():
    """Golden + Jaworski raw inputs (unmapped)."""
    if "raw" not in _cache:
        out = []
        base = os.path.join(REPO, "Data/Raw_data")
        with open(os.path.join(base, "Golden/Golden.csv")) as f:
            for i, r in enumerate(csv.DictReader(f)):
                out.append(("golden_%d" % i, r["reactions"]))
        for name in ("complex", "patent", "typical"):
            with open(os.path.join(base, "Jaworski/%s.csv" % name)) as f:
                for i, r in enumerate(csv.DictReader(f)):
                    out.append(("%s_%d" % (name, i), r.get("reaction") or r.get("reactions")))
        _cache["raw"] = out
    return _cache["raw"]


def stratified_sample(rng, n):
    """n validation rows, stratified over the source datasets"""
    rows = validation_rows()
    groups = {}
    for r in rows:
        groups.setdefault(r["datasets"], []).append(r)
    keys = sorted(groups)
    out = []
    per = max(1, n // len(keys))
    for k in keys:
        g = groups[k]
        out.extend(rng.sample(g, min(per, len(g))))
    rest = [r for r in rows if r not in out]
    while len(out) < n and rest:
        out.append(rest.pop(rng.randrange(len(rest))))
    rng.shuffle(out)
    return out[:n]


def molecules(limit=None):
    """distinct molecules (text-level split on '.', maps kept) of the corpus"""
    if "mols" not in _cache:
        seen = {}
        for r in validation_rows():
            for side in r["reaction"].split(">>"):
                for m in side.split("."):
                    if m:
                        seen.setdefault(m, None)
        for _, rx in raw_reactions():
            for side in rx.split(">>"):
                for m in side.split("."):
                    if m:
                        seen.setdefault(m, None)
        _cache["mols"] = list(seen)
    m = _cache["mols"]
    return m if limit is None else m[:limit]
