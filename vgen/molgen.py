"""Molecule-level generators: periodic-table sweep, bracket-atom forms,
re-spellings through RDKit writers, random mixtures."""
from rdkit import Chem

from vmon import oracle

PT = Chem.GetPeriodicTable()
ORGANIC = ["B", "C", "N", "O", "P", "S", "F", "Cl", "Br", "I"]


def periodic_sweep():
    """every element as atom / cation / anion / hydride / isotope, embedded in
    small molecules where RDKit accepts it; only in-domain strings are kept"""
    out = []
    for z in range(1, 119):
        sym = PT.GetElementSymbol(z)
        forms = ["[%s]" % sym, "[%s+]" % sym, "[%s+2]" % sym, "[%s+3]" % sym, "[%s-]" % sym,
                 "[%s-2]" % sym, "[%sH]" % sym, "[%sH2]" % sym, "[%sH3]" % sym, "[%sH4]" % sym,
                 "[%sH+]" % sym, "[%sH2+]" % sym, "[%sH-]" % sym, "[%d%s]" % (z * 2 + 1, sym),
                 "C[%s]" % sym, "C[%s]C" % sym, "C[%s](C)C" % sym, "C[%s](C)(C)C" % sym,
                 "Cl[%s]Cl" % sym, "O=[%s]=O" % sym, "[%s]O" % sym, "CC.[%s+].[Cl-]" % sym,
                 "F[%s](F)(F)(F)(F)F" % sym, "[%s+4]" % sym, "C[%sH]C" % sym, "C[%sH2]" % sym,
                 "[O-][%s+]" % sym, "C[%s+](C)(C)C" % sym, "C[%s-](C)(C)C" % sym]
        for f in forms:
            if oracle.in_domain_smiles(f):
                out.append(f)
    return out


def bracket_forms(rng, n):
    """bracket atoms x {charge, H count, isotope, chirality, map} embedded in
    small molecules; returns in-domain SMILES (maps included)"""
    out = []
    elems = [PT.GetElementSymbol(z) for z in range(1, 119)]
    arom = ["c", "n", "o", "s", "b", "p", "se", "te"]
    tries = 0
    while len(out) < n and tries < 30 * n:
        tries += 1
        k = rng.random()
        if k < 0.55:
            e = rng.choice(ORGANIC + ORGANIC + elems)
        else:
            e = rng.choice(elems)
        iso = str(rng.choice([2, 13, 15, 18, 35, 37, 81, 127, 200])) if rng.random() < 0.15 else ""
        chir = rng.choice(["@", "@@"]) if rng.random() < 0.12 else ""
        hc = rng.choice(["", "", "", "H", "H2", "H3", "H4", "H5", "H6"])
        ch = rng.choice(["", "", "", "+", "-", "+2", "-2", "+3"])
        mp = (":%d" % rng.randint(1, 150)) if rng.random() < 0.75 else ""
        atom = "[%s%s%s%s%s%s]" % (iso, e, chir, hc, ch, mp)
        ctx = rng.choice(["%s", "C%s", "C%sC", "C%s(C)C", "C%s(C)(C)C", "O=%s", "%s.[Cl-:9]",
                          "[CH3:1]%s", "[CH3:1][CH2:2]%s[CH3:3]", "F%s(F)F", "C=%s", "N#%s", "%s(C)(C)(C)(C)C",
                          "C[C@H](N)%s", "C/C=C/%s", "[O-:4]%s"])
        s = ctx % atom
        if oracle.in_domain_smiles(s):
            out.append(s)
    # aromatic bracket atoms in rings
    rings = ["c1cc[nH:%d]c1", "c1cc[n:%d]cc1", "c1cc[o:%d]c1", "c1cc[s:%d]c1", "c1cc[se:%d]c1",
             "c1ccc2[nH:%d]ccc2c1", "[cH:%d]1[cH:2][cH:3][cH:4][cH:5][cH:6]1", "c1c[n+:%d](C)ccc1",
             "c1cc[n-:%d]c1", "c1c[te:%d]cc1", "C1=C[B:%d]C=C1", "c1cc[pH:%d]c1", "[c:%d]1(C)ccccc1",
             "c1cc[n:%d](=O)cc1"]
    for r in rings:
        for m in (1, 12, 123):
            s = r % m
            if oracle.in_domain_smiles(s):
                out.append(s)
    return out


def respell(mol, rng, k=3, maps=True):
    """equivalent spellings of one molecule from RDKit writers (+ random maps)"""
    out = []
    m = Chem.Mol(mol)
    if maps:
        idx = list(range(1, m.GetNumAtoms() + 1))
        rng.shuffle(idx)
        for a, i in zip(m.GetAtoms(), idx):
            if rng.random() < 0.8:
                a.SetAtomMapNum(i)
    writers = [
        lambda x: Chem.MolToSmiles(x),
        lambda x: Chem.MolToSmiles(x, allHsExplicit=True),
        lambda x: Chem.MolToSmiles(x, allBondsExplicit=True),
        lambda x: Chem.MolToSmiles(x, kekuleSmiles=True) if _kek(x) else Chem.MolToSmiles(x),
        lambda x: Chem.MolToSmiles(x, canonical=False, doRandom=True),
        lambda x: Chem.MolToSmiles(x, allBondsExplicit=True, allHsExplicit=True, doRandom=True, canonical=False),
    ]
    for i in range(k):
        w = rng.choice(writers)
        try:
            out.append(w(m))
        except Exception:
            pass
    return out


def _kek(m):
    try:
        Chem.Kekulize(Chem.Mol(m), clearAromaticFlags=False)
        return True
    except Exception:
        return False


def explicit_h_spellings():
    return ["[H]OC", "[H]C([H])([H])O[H]", "[H][H]", "[H]N([H])C", "[H]Cl", "[H]OC(C)=O", "[H]c1ccccc1",
            "[2H]O[2H]", "[H+]", "[H-]", "[H]O[H]", "C([H])([H])([H])[H]", "[H][N+]([H])([H])[H]",
            "[3H]C", "[H]C#C[H]", "[H]OO[H]", "[H]S[H]", "[H][Si]([H])([H])[H]", "[H]B([H])[H]"]
