"""Reaction workload generators (all seeded through the rng that is passed in).
Each generator yields (tag, reaction_smiles)."""
import json
import os

from rdkit import Chem

from vmon import oracle
from vgen import corpus

R_GROUPS = [
    "C", "CC", "CCC", "CC(C)", "CCCC", "C1CC1", "C1CCCCC1", "c1ccccc1",
    "c1ccc(C)cc1", "c1ccc(OC)cc1", "c1ccc(Cl)cc1", "c1ccncc1", "c1ccsc1",
    "C(F)(F)F", "CCOC", "c1ccc(cc1)C(C)(C)C", "CCCCCC", "c1ccc2ccccc2c1",
    "C(C)(C)C", "c1ccc(F)cc1", "CCN(C)C", "c1ccoc1", "CCS", "C1CCOCC1",
]


def _ok(s):
    return Chem.MolFromSmiles(s) is not None


def redox_family(rng, n):
    """unbalanced oxidation / reduction skeletons that drive the reagent
    templates of post-processing (the pipeline must supply [O]/[H] itself)"""
    fam = [
        ("ox_prim_ald", lambda r, q: "%sCO>>%sC=O" % (r, r)),
        ("ox_sec_ket", lambda r, q: "%sC(O)%s>>%sC(=O)%s" % (r, q, r, q)),
        ("ox_prim_acid", lambda r, q: "%sCO>>%sC(=O)O" % (r, r)),
        ("ox_ald_acid", lambda r, q: "%sC=O>>%sC(=O)O" % (r, r)),
        ("red_ket", lambda r, q: "%sC(=O)%s>>%sC(O)%s" % (r, q, r, q)),
        ("red_ald", lambda r, q: "%sC=O>>%sCO" % (r, r)),
        ("red_ester", lambda r, q: "%sC(=O)O%s>>%sCO.O%s" % (r, q, r, q)),
        ("red_acid", lambda r, q: "%sC(=O)O>>%sCO" % (r, r)),
        ("red_amide", lambda r, q: "%sC(=O)N>>%sCN" % (r, r)),
        ("red_acylcl", lambda r, q: "%sC(=O)Cl>>%sCO" % (r, r)),
        ("red_nitro", lambda r, q: "%s[N+](=O)[O-]>>%sN" % (r, r)),
        ("red_nitrile", lambda r, q: "%sC#N>>%sCN" % (r, r)),
        ("red_alkene", lambda r, q: "%sC=C%s>>%sCC%s" % (r, q, r, q)),
        ("ox_diol", lambda r, q: "%sC(O)C(O)%s>>%sC(=O)C(=O)%s" % (r, q, r, q)),
        ("ox_thiol", lambda r, q: "%sS%s>>%sS(=O)%s" % (r, q, r, q)),
        ("ox_sulfone", lambda r, q: "%sS%s>>%sS(=O)(=O)%s" % (r, q, r, q)),
        ("epox", lambda r, q: "%sC=C%s>>%sC1OC1%s" % (r, q, r, q)),
    ]
    out = []
    i = 0
    while len(out) < n and i < 50 * n:
        name, f = fam[i % len(fam)]
        i += 1
        r, q = rng.choice(R_GROUPS), rng.choice(R_GROUPS)
        s = f(r, q)
        w = rng.random()
        if w < 0.3:  # water already written on the reactant side
            a, b = s.split(">>")
            s = a + ".O>>" + b
            name += "+w"
        elif w < 0.4:
            s = s + ".O"
            name += "+pw"
        if all(_ok(x) for x in s.split(">>")):
            out.append(("%s|%s|%s" % (name, r, q), s))
    return out


HEAVY = [
    "[U]", "[Th]", "[Pu]", "[Ra+2]", "[Fr+]", "[Ac+3]", "[Am+3]", "[Np]", "[Pa]",
    "[Cm]", "[Rf]", "[Lr]", "[Og]", "[U+4]", "[Th+4]", "F[U](F)(F)(F)(F)F",
    "O=[U+2]=O", "Cl[Th](Cl)(Cl)Cl", "[Ra]", "[Cf+3]",
]
CATIONS = ["[Na+]", "[K+]", "[Li+]", "[NH4+]", "[Ag+]", "[Cs+]", "[Ca+2]", "[Mg+2]",
           "[Ba+2]", "[Zn+2]", "[Cu+2]", "[Al+3]", "[Fe+3]", "C[N+](C)(C)C", "[Ra+2]", "[Fr+]"]
ANIONS = ["[Cl-]", "[Br-]", "[I-]", "[F-]", "[OH-]", "CC(=O)[O-]", "[O-][N+](=O)[O-]",
          "[O-]S(=O)(=O)[O-]", "[O-]C(=O)[O-]", "[N-]=[N+]=[N-]", "[C-]#N", "C[O-]",
          "[O-]P(=O)([O-])[O-]", "[BH4-]", "[O-]Cl(=O)(=O)=O"]


HEAVY += ["[Pu+4]", "[Np+4]", "[Bk+3]", "[No+2]", "[Db]", "[Sg]", "[Cn]", "[Fl]", "[Ts-]", "[Rn]",
          "[At-]", "[Po]", "O=[Pu+2]=O", "F[Np](F)(F)F", "[Md+3]", "[Fm+3]"]
HEAVY = [s for s in HEAVY if oracle.in_domain_smiles(s)]
CATIONS = [s for s in CATIONS if oracle.in_domain_smiles(s)]
ANIONS = [s for s in ANIONS if oracle.in_domain_smiles(s)]


def _charge(s):
    return oracle.comp(s)[1]


def ionic_balanced(rng, n):
    """balanced by construction: metathesis, regrouping, isotope carriers,
    zwitterions, heavy-element spectators"""
    out = []
    for i in range(n):
        k = rng.randrange(6)
        if k == 0:  # salt metathesis  A+ X- . B+ Y- >> A+ Y- . B+ X-
            a, b = rng.sample(CATIONS, 2)
            x, y = rng.sample(ANIONS, 2)
            left = [a, x, b, y]
            right = [b, y, a, x]
            rng.shuffle(right)
            out.append(("metathesis", ".".join(left) + ">>" + ".".join(right)))
        elif k == 1:  # heavy element spectator on a balanced organic reaction
            hv = rng.choice(HEAVY)
            out.append(("heavy_spectator", "CC(=O)O.OCC.%s>>CC(=O)OCC.O.%s" % (hv, hv)))
        elif k == 2:  # heavy halide formation/regrouping (same atoms, same charge)
            out.append(("heavy_regroup", "[U+4].[F-].[F-].[F-].[F-]>>F[U](F)(F)F"))
        elif k == 3:  # zwitterion <-> neutral
            out.append(("zwitterion", "NCC(=O)O>>[NH3+]CC(=O)[O-]"))
        elif k == 4:  # isotopes
            out.append(("isotope", "[2H]O[2H].CC(=O)Cl>>CC(=O)O[2H].[2H]Cl"))
        else:  # proton transfer
            c = rng.choice(["CC(=O)O", "c1ccccc1O", "CS(=O)(=O)O"])
            base = rng.choice(["N", "CN", "c1ccncc1"])
            m = Chem.MolFromSmiles(c)
            # deprotonated acid / protonated base built with the API
            acid = Chem.RWMol(m)
            o = [a for a in acid.GetAtoms() if a.GetSymbol() == "O" and a.GetTotalNumHs() == 1][0]
            o.SetFormalCharge(-1)
            o.SetNoImplicit(True)
            o.SetNumExplicitHs(0)
            bm = Chem.RWMol(Chem.MolFromSmiles(base))
            nat = [a for a in bm.GetAtoms() if a.GetSymbol() == "N"][0]
            nat.SetFormalCharge(1)
            nat.SetNoImplicit(True)
            nat.SetNumExplicitHs(nat.GetTotalNumHs() + 1)
            try:
                Chem.SanitizeMol(acid)
                Chem.SanitizeMol(bm)
                rx = "%s.%s>>%s.%s" % (c, base, Chem.MolToSmiles(acid), Chem.MolToSmiles(bm))
                out.append(("proton_transfer", rx))
            except Exception:
                out.append(("zwitterion", "NCC(=O)O>>[NH3+]CC(=O)[O-]"))
    return [(t, s) for t, s in out if oracle.balanced(s)]


def heavy_unbalanced(rng, n):
    """transmutation-like unbalanced inputs: different heavy elements on the
    two sides (never balanced, must never be reported solved as they stand)"""
    out = []
    for i in range(n):
        a, b = rng.sample(HEAVY, 2)
        if rng.random() < 0.7:  # same charge, other element: only the symbol table can tell
            same = [x for x in HEAVY if x != a and oracle.comp(x)[1] == oracle.comp(a)[1]
                    and Chem.MolFromSmiles(x).GetNumAtoms() == 1 == Chem.MolFromSmiles(a).GetNumAtoms()]
            if same:
                b = rng.choice(same)
        if oracle.comp(a) == oracle.comp(b):
            continue
        k = rng.randrange(3)
        if k == 0:
            out.append(("transmute", "%s>>%s" % (a, b)))
        elif k == 1:
            out.append(("transmute_org", "CCO.%s>>CCO.%s" % (a, b)))
        else:
            out.append(("transmute_salt", "%s.[Cl-]>>%s.[Cl-]" % (a, b)))
    return out


def rule_compounds():
    """SMILES of the shipped rule database (read as data, not via synrbl)."""
    path = os.path.join(corpus.REPO, "synrbl/SynRuleImputer/rules_manager.json.gz")
    with open(path, "rb") as f:
        raw = f.read()
    if raw[:2] == b"\x1f\x8b":
        import gzip
        raw = gzip.decompress(raw)
    return json.loads(raw)


def balanced_corpus():
    """shipped expected reactions that the independent oracle finds balanced,
    plus balanced shipped inputs"""
    out = []
    for r in corpus.validation_rows():
        e = r["expected"]
        if e and oracle.balanced(e):
            out.append(("val_%d" % r["id"], e))
    return out


def deletions(rng, n, base=None):
    """take a balanced reaction, delete k copies of a small molecule that is in
    the rule database from one side -> composition-determined completion"""
    base = base or balanced_corpus()
    rules = {oracle.demap(e["smiles"]) for e in rule_compounds()
             if oracle.in_domain_smiles(e["smiles"])}
    out = []
    tries = 0
    while len(out) < n and tries < 40 * n:
        tries += 1
        tag, rx = rng.choice(base)
        sp = oracle.split_rsmi(rx)
        side = rng.randrange(2)
        mols = sp[side].split(".")
        idx = [i for i, m in enumerate(mols) if oracle.demap(m) in rules]
        if not idx or len(mols) < 2:
            continue
        victim = mols[rng.choice(idx)]
        kmax = sum(1 for m in mols if m == victim)
        k = rng.randint(1, kmax)
        kept = []
        removed = 0
        for m in mols:
            if m == victim and removed < k:
                removed += 1
                continue
            kept.append(m)
        if not kept:
            continue
        sides = [sp[0], sp[1]]
        sides[side] = ".".join(kept)
        out.append(("del|%s|%s|%d|%d" % (tag, victim, k, side), ">>".join(sides)))
    return out


def additions(rng, n):
    """a balanced reaction with k copies of a rule compound *added* to one side
    (the completion has to appear on the other side)"""
    base = balanced_corpus()
    comps = [e["smiles"] for e in rule_compounds() if oracle.in_domain_smiles(e["smiles"])]
    out = []
    for i in range(n):
        tag, rx = rng.choice(base)
        sp = list(oracle.split_rsmi(rx))
        c = rng.choice(comps)
        k = rng.randint(1, 3)
        side = rng.randrange(2)
        sp[side] = sp[side] + ("." + c) * k
        out.append(("add|%s|%s|%d|%d" % (tag, c, k, side), ">>".join(sp)))
    return out


def reversals(base):
    return [("rev|" + t, ">>".join(reversed(rx.split(">>")))) for t, rx in base]


def multiples(base, k):
    out = []
    for t, rx in base:
        a, b = rx.split(">>")
        out.append(("x%d|%s" % (k, t), ".".join([a] * k) + ">>" + ".".join([b] * k)))
    return out


def unions(rng, base, n):
    out = []
    for i in range(n):
        (t1, r1), (t2, r2) = rng.sample(base, 2)
        a1, b1 = r1.split(">>")
        a2, b2 = r2.split(">>")
        out.append(("union|%s|%s" % (t1, t2), a1 + "." + a2 + ">>" + b1 + "." + b2))
    return out


def side_swapped(rng, n):
    """corpus inputs reversed: products become carbon-richer -> must decline"""
    rows = corpus.validation_rows()
    out = []
    for r in rng.sample(rows, min(n, len(rows))):
        a, b = r["reaction"].split(">>")
        out.append(("swap_%d" % r["id"], b + ">>" + a))
    return out


def marker_collisions(rng, n):
    """inputs whose *text* contains the substrings the pipeline uses as
    markers ('.[H]', '.[O', '.OO'), placed at every position of a side"""
    carriers_h = ["[H]OC", "[H]C([H])([H])O", "[H][H]", "[H]N([H])C", "[H]Cl", "[H]OC(C)=O",
                  "[H]c1ccccc1"]
    carriers_o = ["OO", "OOC", "OOC(C)(C)C", "OOC(=O)C", "[O-]C", "[O-][N+](=O)c1ccccc1",
                  "[OH-]", "[O-]C(C)=O", "[O][Cr](=O)(=O)O"]
    skeletons = [
        ("CCO", "CC=O"), ("CC(O)C", "CC(C)=O"), ("CC=O", "CC(=O)O"), ("CC(C)=O", "CC(C)O"),
        ("CC(=O)O.OCC", "CC(=O)OCC"), ("CC(=O)Cl.N", "CC(N)=O"), ("CCBr.[OH-]", "CCO"),
        ("c1ccccc1C=O", "c1ccccc1CO"), ("CC(=O)OCC", "CCO"), ("CCO", "CCO"),
        ("CC#N", "CCN"), ("CCC=C", "CCCC"),
    ]
    out = []
    for i in range(n):
        a, b = rng.choice(skeletons)
        car = rng.choice(carriers_h + carriers_o)
        if car in ("[O][Cr](=O)(=O)O",) and not oracle.in_domain_smiles(car):
            continue
        if not oracle.in_domain_smiles(car):
            continue
        side = rng.randrange(2)
        both = rng.random() < 0.35
        parts = [a.split("."), b.split(".")]
        pos = rng.randint(0, len(parts[side]))
        parts[side].insert(pos, car)
        if both:
            o = 1 - side
            parts[o].insert(rng.randint(0, len(parts[o])), car)
        rx = ".".join(parts[0]) + ">>" + ".".join(parts[1])
        out.append(("marker|%s|%d|%d|%s" % (car, side, pos, both), rx))
    return out


def two_sided_oxygen(rng, n):
    """'Both'-type imbalances that contain O: the water-insertion branch edits
    the row in place before it is known to be solvable"""
    out = []
    pool = [
        "CC(=O)OC.N>>CC(N)=O.Cl", "CCO.Cl>>CCCl.N", "CC(=O)O.[Na+]>>CC(=O)OC.[K+]",
        "CS(=O)(=O)Cl.CO>>COS(C)(=O)=O.Br", "CC(=O)OCC.F>>CC(=O)O.I",
        "OCCO.Br>>C1COC1.Cl", "CC(=O)Cl.OC>>CC(=O)OC.[Na+]",
        "c1ccccc1O.BrC>>c1ccccc1OC.Cl", "CCOC(C)=O.[Li+]>>CC(=O)[O-].[K+]",
        "CC(O)=O.S>>CC(=O)S.N", "O=C=O.N>>NC(N)=O.Cl", "COC(=O)C.B(O)(O)O>>CC(=O)O.[F-]",
    ]
    for i in range(n):
        s = rng.choice(pool)
        a, b = s.split(">>")
        if rng.random() < 0.5:
            r = rng.choice(R_GROUPS)
            a, b = a + ".C" + r, b + ".C" + r
        out.append(("both_o|%d" % i, a + ">>" + b))
    return out


def h2_on_reactant_side(rng, n):
    """molecular hydrogen / explicit-H molecules written among the reactants of a reaction that
    still needs a composition-determined completion (text contains '.[H]' only for some orders)"""
    skel = [("CC(=O)Cl", "CC=O"), ("CCBr", "CC"), ("c1ccccc1I", "c1ccccc1"), ("CC(=O)OC", "CCO.CO"),
            ("CC#N.O", "CC(N)=O"), ("ClCCCl", "CCCl"), ("CS(=O)(=O)OCC", "CC")]
    hs = ["[H][H]", "[H][H]", "[H]Cl", "[H]O[H]", "[2H][2H]"]
    out = []
    for i in range(n):
        a, b = rng.choice(skel)
        h = rng.choice(hs)
        r = rng.choice(R_GROUPS)
        parts = a.split(".") + [h]
        if rng.random() < 0.5:
            parts.append("C" + r)
            b = b + ".C" + r
        rng.shuffle(parts)
        out.append(("h2|%s|%d" % (h, i), ".".join(parts) + ">>" + b))
    return [(t, s) for t, s in out if oracle.in_domain_rsmi(s)]


def spectator_laden(rng, n):
    """cheap MCS reactions with 1-5 spectator molecules written on the reactant side only (they are
    passed through to the products); drives the low end of the confidence range"""
    base = ["CCN=C=O.NCC>>CCNC(=O)NCC", "CC(=O)Cl.NCC>>CC(=O)NCC", "c1ccccc1N=C=O.NCC>>c1ccccc1NC(=O)NCC",
            "CC(=O)OC>>CC(=O)O", "CS(=O)(=O)OCC>>CCO", "CC(=O)OCC>>CCO", "CC(=O)Cl.Nc1ccccc1>>CC(=O)Nc1ccccc1"]
    spec = ["CCN(CC)CC", "Cl", "CCN(C(C)C)C(C)C", "ClCCl", "c1ccncc1", "CN(C)c1ccncc1", "CC#N", "Cc1ccccc1",
            "CN(C)C=O", "C1CCOC1", "O", "[Na+].[OH-]"]
    out = []
    for i in range(n):
        a, b = rng.choice(base).split(">>")
        sp = rng.sample(spec, rng.randint(1, 5))
        parts = a.split(".") + sp
        rng.shuffle(parts)
        out.append(("spect|%d" % i, ".".join(parts) + ">>" + b))
    return out


def zero_confidence(rng, n):
    """metal / noble-gas hexahalide -> bare element next to an untouched organic molecule: reaches the MCS
    stage, is completed with six hydrogen halides and is scored 0.000 by the shipped confidence model
    (measured on the pinned tree for U, W, Mo, Xe x F, Cl x 4 organics: 32 of 32), i.e. a confidence
    *equal* to the default threshold 0"""
    org = ["CCO", "c1ccccc1", "CC(=O)O", "CCN", "CCOCC", "CC(C)=O", "c1ccncc1", "CC#N", "CCCC", "OCCO"]
    out = []
    for i in range(n):
        m, x, o = rng.choice(["U", "W", "Mo", "Xe"]), rng.choice(["F", "Cl"]), rng.choice(org)
        hal = "%s[%s](%s)(%s)(%s)(%s)%s" % (x, m, x, x, x, x, x)
        parts = [o, hal]
        rng.shuffle(parts)
        out.append(("zeroconf|%s%s6|%d" % (m, x, i), "%s>>%s.[%s]" % (".".join(parts), o, m)))
    return [(t, s) for t, s in out if oracle.in_domain_rsmi(s)]


def dihalogen_oxygen_loss(rng, n):
    """products lack X.Y (+ O, O3) relative to the reactants: the only completions are elemental
    dihalogens / interhalogens plus oxygen placeholders, which must never be accepted on the product side"""
    X = ["F", "Cl", "Br", "I"]
    out = []
    for i in range(n):
        x, y = rng.choice(X), rng.choice(X)
        r = rng.choice(R_GROUPS)
        k = rng.randrange(5)
        if k == 0:
            rx = "%sCC(O)(%s)%s>>%sC=C" % (r, x, y, r)
        elif k == 1:
            rx = "%sC(%s)(%s)%s.O=C%s>>%sC(%s)=C%s" % (x, x, y, y, r, x, y, r)
        elif k == 2:
            rx = "%sCC(O)(%s)%s.O=O>>%sC=C" % (r, x, y, r)
        elif k == 3:
            rx = "%sC(%s)C(%s)%s>>%sC=C%s" % (r, x, y, r, r, r)
        else:
            rx = "%sCC(O)(%s)%s.C%s>>%sC=C.C%s" % (r, x, y, r, r, r)
        if all(Chem.MolFromSmiles(t) is not None for t in rx.split(">>")):
            out.append(("x2o|%d" % i, rx))
    return out


def multi_additions(rng, n):
    """a balanced reaction with 2-3 *different* rule compounds (1-2 copies each) added to one side: the
    completion on the other side has several equally short decompositions to choose from"""
    base = balanced_corpus()
    # small compounds only: sums of several oxyanions send the rule matcher's DFS into minutes
    comps = ["N#N", "O", "N", "[Na+]", "[K+]", "[Li+]", "[Cl-]", "[Br-]", "[I-]", "[F-]", "[OH-]", "[NH4+]",
             "[H+]", "B(O)(O)O", "Cl", "Br", "O=O", "[Mg+2]", "[Ca+2]", "NO"]
    out = []
    for i in range(n):
        tag, rx = rng.choice(base)
        sp = list(oracle.split_rsmi(rx))
        side = rng.randrange(2)
        picked = rng.sample(comps, rng.randint(2, 3))
        extra = []
        for c in picked:
            extra += [c] * rng.randint(1, 2)
        rng.shuffle(extra)
        parts = sp[side].split(".") + extra
        if rng.random() < 0.5:
            rng.shuffle(parts)
        sp[side] = ".".join(parts)
        out.append(("madd|%s|%s|%d" % (tag, "+".join(picked), side), ">>".join(sp)))
    return out


def with_spectator_copy(rng, pairs):
    """one molecule of the reactant side written once more on both sides (excess reagent that is
    listed among the products with the identical string)"""
    out = []
    for tag, rx in pairs:
        sp = oracle.split_rsmi(rx)
        if sp is None or not sp[0] or not sp[1]:
            continue
        m = rng.choice(sp[0].split("."))
        k = rng.randint(1, 2)
        out.append(("copy|" + tag, sp[0] + ("." + m) * k + ">>" + sp[1] + ("." + m) * k))
    return out


DOT_CLOSURES = [("C1.O1", "CO"), ("C1.C1", "CC"), ("CC1.O1", "CCO"), ("C1CC.C1", "CCCC"),
                ("N1(CC)CC.C1", "CCN(C)CC"), ("c1ccccc1C2.O2", "OCc1ccccc1"), ("CC(=O)O1.C1", "COC(C)=O"),
                ("Cl1.C1", "CCl"), ("C=1.C=1", "C=C"), ("C1.N1C", "CNC"), ("OC1.C1=O", "OCC=O")]


def dot_ring_closures(rng, n):
    """valid SMILES in which one molecule is written with a ring-closure bond across a dot ('C1.O1' is
    methanol): balanced pairs with the ordinary spelling, and the same molecule as an extra reagent"""
    base = balanced_corpus()
    out = []
    for i in range(n):
        d, c = rng.choice(DOT_CLOSURES)
        k = rng.randrange(4)
        if k == 0:
            out.append(("dotring_bal|%d" % i, "%s>>%s" % (d, c)))
        elif k == 1:
            out.append(("dotring_bal_rev|%d" % i, "%s>>%s" % (c, d)))
        elif k == 2:
            tag, rx = rng.choice(base)
            a, b = rx.split(">>")
            out.append(("dotring_spectator|%d" % i, "%s.%s>>%s.%s" % (a, d, b, c)))
        else:
            tag, rx = rng.choice(base)
            a, b = rx.split(">>")
            out.append(("dotring_extra|%d" % i, "%s.%s>>%s" % (a, d, b)))
    return [(t, s) for t, s in out if oracle.in_domain_rsmi(s)]


DIMERISATIONS = [
    ["CC(=O)O.CC(=O)O>>CC(=O)OC(C)=O.O", "CC(=O)O>>CC(=O)[O-].[H+]", "CC(=O)O.CCO>>CC(=O)OCC.O"],
    ["CCO.CCO>>CCOCC.O", "CCO>>C=C.O", "CCO>>CC=O.[H][H]"],
    ["CC(C)=O.CC(C)=O>>CC(=O)CC(C)(C)O", "CC(C)=O>>CC(O)=C"],
    ["CC=O.CC=O>>CC(O)CC=O", "CC=O>>C=CO", "CC=O.CC=O.CC=O>>CC1OC(C)OC(C)O1"],
    ["CS.CS>>CSSC.[H][H]", "CS>>C[S-].[H+]"],
    ["C=CC.C=CC>>CC=CC.C=C", "C=CC>>C1CC1"],
    ["C1=CCC=C1.C1=CCC=C1>>C1=CC2CC1C1C=CCC21", "C1=CCC=C1>>C1=CC=CC1"],
    ["c1ccccc1C=O.c1ccccc1C=O>>c1ccccc1C(O)C(=O)c1ccccc1", "c1ccccc1C=O>>O=Cc1ccccc1"],
    ["NCC(=O)O.NCC(=O)O>>NCC(=O)NCC(=O)O.O", "NCC(=O)O>>[NH3+]CC(=O)[O-]"],
    ["CC#C.CC#C.CC#C>>Cc1cc(C)cc(C)c1", "CC#C>>C=C=C"],
]


def self_reaction_families(rng, n):
    """families of *balanced* reactions in which the same molecule string occurs with different multiplicities
    on sides of different rows: curated dimerisations / trimerisations next to unimolecular reactions of the same
    molecule, and identity reactions A>>A', A.A>>A'.A, A.A.A>>A.A'.A' over a corpus molecule A and a re-spelling A'
    of it.  Returned as a list of families (lists of (tag, reaction)); every member is balanced by the oracle."""
    fams = [[("dimer|%d|%d" % (i, j), rx) for j, rx in enumerate(f) if oracle.balanced(rx)]
            for i, f in enumerate(DIMERISATIONS)]
    mols = [m for m in corpus.molecules() if "C" in m.upper()]
    tries = 0
    while len(fams) < n and tries < 20 * n:
        tries += 1
        a = oracle.demap(rng.choice(mols))
        if a is None or "." in a or not oracle.in_domain_smiles(a):
            continue
        m = Chem.MolFromSmiles(a)
        if m is None or m.GetNumAtoms() > 30 or m.GetNumAtoms() < 2:
            continue
        Chem.rdBase.SeedRandomNumberGenerator(rng.randrange(1 << 30))
        b = Chem.MolToSmiles(m, canonical=False, doRandom=True)
        if b == a or oracle.frags(b) != oracle.frags(a):
            continue
        fam = [("ident|%d|1" % len(fams), "%s>>%s" % (a, b)),
               ("ident|%d|2" % len(fams), "%s.%s>>%s.%s" % (a, a, b, a)),
               ("ident|%d|3" % len(fams), "%s.%s.%s>>%s.%s.%s" % (a, a, a, a, b, b)),
               ("ident|%d|4" % len(fams), "%s.%s>>%s.%s" % (b, b, a, a))]
        rng.shuffle(fam)
        fams.append(fam)
    return [[(t, rx) for t, rx in f if oracle.balanced(rx)] for f in fams[:n]]


def dative(rng, n):
    """coordination compounds written with dative bonds ('->' / '<-' inside a molecule; '>' is also the
    reaction separator character): ligands + metal (halide) -> complex; balanced, with one ligand missing on the
    reactant side, and the reverse (complex among the reactants).  Returns (tag, reaction) with in-domain sides."""
    metals = ["[Pt](Cl)(Cl)", "[Pd](Cl)(Cl)", "[Cu+2]", "[Zn+2]", "[Ni]", "[Au](Cl)", "[Co+3]", "[Fe+2]", "[Ag+]",
              "[Pt](Br)(Br)", "[Rh](Cl)", "[Hg](Cl)(Cl)"]
    ligs = ["N", "O", "CC#N", "CS(C)", "CP(C)(C)", "c1ccccn1", "CN", "CO", "OCC", "[C-]#[O+]"]
    free = {"CS(C)": "CSC", "CP(C)(C)": "CP(C)C"}
    out = []
    tries = 0
    while len(out) < n and tries < 30 * n:
        tries += 1
        m, l1, l2 = rng.choice(metals), rng.choice(ligs), rng.choice(ligs)
        if l2 in ("[C-]#[O+]",):
            l2 = "N"
        first = {"CS(C)": "S(C)C", "CP(C)(C)": "P(C)(C)C", "c1ccccn1": "n1ccccc1", "CC#N": "N#CC", "CN": "NC",
                 "CO": "OC"}.get(l2, l2)
        donor_last = l1 if l1 != "[C-]#[O+]" else "[O+]#[C-]"
        cplx = "%s->%s<-%s" % (donor_last, m, first)
        f1, f2 = free.get(l1, l1), free.get(l2, l2)
        metal_free = m.replace("(", "").replace(")", "")
        metal_free = {"[Pt]ClCl": "Cl[Pt]Cl", "[Pd]ClCl": "Cl[Pd]Cl", "[Au]Cl": "[Au]Cl", "[Pt]BrBr": "Br[Pt]Br",
                      "[Rh]Cl": "[Rh]Cl", "[Hg]ClCl": "Cl[Hg]Cl"}.get(metal_free, metal_free)
        k = rng.randrange(6)
        if k >= 4:
            # the same ligand twice in the complex, one of them missing among the reactants (what is written
            # after the '->' is then balanced by the reactants on its own) - and the other way round
            l1 = l2 if l2 != "[C-]#[O+]" else "N"
            donor_last = l1
            cplx = "%s->%s<-%s" % (donor_last, m, first)
            f1 = free.get(l1, l1)
            rx = "%s.%s>>%s" % (f1, metal_free, cplx) if k == 4 else "%s.%s.CCO>>%s.CCO" % (metal_free, f1, cplx)
            tag = "dative_one_of_two_equal_ligands_missing"
        elif k == 0:
            rx = "%s.%s.%s>>%s" % (f1, metal_free, f2, cplx)
            tag = "dative_balanced"
        elif k == 1:
            rx = "%s.%s>>%s" % (f1, metal_free, cplx)
            tag = "dative_ligand_missing"
        elif k == 2:
            rx = "%s>>%s.%s.%s" % (cplx, f2, f1, metal_free)
            tag = "dative_reverse_balanced"
        else:
            rx = "%s.CCO>>%s.%s.CCO" % (cplx, f1, metal_free)
            tag = "dative_reverse_ligand_missing"
        if oracle.in_domain_rsmi(rx) and "->" in rx:
            out.append(("%s|%d" % (tag, len(out)), rx))
    return out


def dot_closure_mcs(rng, n):
    """unbalanced reactions that need the MCS stage and whose carbon-richer side contains, next to an ordinary
    molecule, a molecule written with a ring-closure bond across a dot (THF as 'C1CCC2.O12', methanol as 'C1.O1'):
    the side parses as a whole, its '.'-separated pieces do not"""
    base = ["CC(=O)OCC>>CC(=O)O", "CC(=O)Cl.NCC>>CC(=O)NCC", "CS(=O)(=O)OCC>>CCO", "CC(=O)OC>>CC(=O)O",
            "c1ccccc1C(=O)OC>>c1ccccc1C(=O)O", "CCOC(=O)CC>>CCC(=O)O", "CC(=O)NC>>CN", "CCN=C=O.NCC>>CCNC(=O)NCC"]
    out = []
    for i in range(n):
        d, c = rng.choice(DOT_CLOSURES)
        a, b = rng.choice(base).split(">>")
        parts = a.split(".") + [d]
        rng.shuffle(parts)
        out.append(("dotmcs|%d" % i, "%s>>%s" % (".".join(parts), b)))
    return [(t, s) for t, s in out if oracle.in_domain_rsmi(s)]


CHARGE_PAIRS = [("BrBr", "[Br-].[Br-]"), ("ClCl", "[Cl-].[Cl-]"), ("II", "[I-].[I-]"), ("FF", "[F-].[F-]"),
                ("O=C1C=CC(=O)C=C1", "[O-]c1ccc([O-])cc1"), ("[Fe+2]", "[Fe+3]"), ("[Cu+]", "[Cu+2]"),
                ("[Sn+2]", "[Sn+4]"), ("[Ce+3]", "[Ce+4]"), ("CSSC", "C[S-].C[S-]"), ("OO", "[OH-].[OH-]"),
                ("[Tl+]", "[Tl+3]"), ("N#CC#N", "[C-]#N.[C-]#N"), ("O=O", "[O-][O-]"), ("[Hg+2]", "[Hg+].[Hg+]")
                if False else ("[Co+2]", "[Co+3]"), ("c1ccc(SSc2ccccc2)cc1", "[S-]c1ccccc1.[S-]c1ccccc1")]


def charge_only_imbalance(rng, n):
    """reactions that are balanced in every element but not in charge (redox half reactions): never balanced,
    must never be labelled input-balanced or be reported solved as they stand"""
    spect = ["", "", "CCO", "O", "[Na+].[Cl-]", "CC(=O)O", "c1ccccc1"]
    out = []
    for i in range(n):
        a, b = rng.choice(CHARGE_PAIRS)
        if rng.random() < 0.5:
            a, b = b, a
        sp = rng.choice(spect)
        l, r = ([a] + ([sp] if sp else [])), ([b] + ([sp] if sp else []))
        rng.shuffle(l)
        rng.shuffle(r)
        rx = "%s>>%s" % (".".join(l), ".".join(r))
        if oracle.in_domain_rsmi(rx) and oracle.balanced(rx) is False:
            out.append(("charge_only|%d" % i, rx))
    return out


def completion_prefix_collisions(rng, n):
    """a small product (water, ammonia, HCl, HBr, methanol ...) is missing on the product side while one of the
    *given* products - not the first one - is written so that its text starts with that molecule's SMILES
    ('.OC', '.OCC', '.NC', '.ClC' ...): text-level handling of the appended completion can cut the side there"""
    base = [("CC(=O)O.OCC>>CC(=O)OCC", "O"), ("CC(=O)Cl.NCC>>CC(=O)NCC", "Cl"), ("CCBr.N>>CCN", "Br"),
            ("CC=O.NC>>CC=NC", "O"), ("CC(=O)OC.N>>CC(N)=O", "CO"), ("OCC.OCC>>CCOCC", "O"),
            ("CC(=O)O.NC>>CC(=O)NC", "O"), ("c1ccccc1C(=O)Cl.OC>>c1ccccc1C(=O)OC", "Cl"),
            ("CCI.[OH-]>>CCO", "[I-]"), ("CC(=O)OC(C)=O.OCC>>CC(=O)OCC", "CC(=O)O")]
    spect = {"O": ["OC", "OCC", "OCCO", "OC(C)C", "Oc1ccccc1", "OO"], "Cl": ["ClC", "ClCCl", "ClC(Cl)Cl", "Clc1ccccc1"],
             "Br": ["BrC", "BrCC", "Brc1ccccc1"], "CO": ["COC", "COCC", "COc1ccccc1"], "[I-]": ["[I-].[Na+]"],
             "CC(=O)O": ["CC(=O)OC", "CC(=O)OCC"]}
    out = []
    for i in range(n):
        rx, missing = rng.choice(base)
        a, b = rx.split(">>")
        sp = rng.choice(spect[missing])
        extra = rng.choice(["", "", "CCN(CC)CC", "c1ccncc1"])
        left = a.split(".") + [sp] + ([extra] if extra else [])
        right = b.split(".") + [sp] + ([extra] if extra else [])
        rng.shuffle(left)
        if rng.random() < 0.5:
            right = [right[0]] + rng.sample(right[1:], len(right) - 1)
        out.append(("prefixcoll|%s|%d" % (missing, i), "%s>>%s" % (".".join(left), ".".join(right))))
    return [(t, s) for t, s in out if oracle.in_domain_rsmi(s)]
